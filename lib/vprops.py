"""Per-property check functions."""
import json, os, re, sys, time
from vcheck import (run_generic, GENERIC, Inconclusive, log, load_known)


def generic(root, prop, tier, seed, res):
    eng = run_generic(root, prop, tier, seed, res)
    cf = eng.compile_failures()
    # a context-carrying definition that does not compile refutes "any regex may serve as a context"
    if prop == "C04":
        for x in cf:
            if " - (" not in x["spec"] or re.search(r"\(rule \d+ \S.*?\) \((?!do|try|simple)", x["spec"]):
                pass
        for x in cf:
            if has_ctx(x["spec"]):
                res.violations.append(x)
    return eng


def has_ctx(spec_text):
    # (rule ID RE CTX ACT): CTX is "-" when absent. Cheap structural test on the s-expression.
    from sx import parse
    t = parse(spec_text)
    for s in t[4:]:
        for e in s[2:]:
            if e[0] == "rule" and e[3] != "-":
                return True
    return False


CHECKS = {p: generic for p in GENERIC}
