"""Per-property check functions."""
import json, os, re, sys, time
from vcheck import (run_generic, GENERIC, Inconclusive, log, load_known)


def generic(root, prop, tier, seed, res):
    eng = run_generic(root, prop, tier, seed, res)
    cf = eng.compile_failures()
    # a context-carrying definition that does not compile refutes "any regex may serve as a context"
    if prop == "C04":
        with_ctx = [x for x in cf if has_ctx(x["spec"])]
        if with_ctx:
            # is the context the reason? the same definitions without their contexts must compile
            from sx import strip_contexts
            ok = compile_specs(eng, "c04_stripped", [strip_contexts(x["spec"]) for x in with_ctx])
            res.extra["not_compiling_with_context"] = len(with_ctx)
            res.extra["of_which_compile_without_context"] = len(ok)
            for i, x in enumerate(with_ctx):
                if i in ok:
                    y = dict(x)
                    y["what"] = "definition compiles once its right contexts are removed, but not with them: " + x["what"][:300]
                    res.violations.append(y)
    # variants of one definition (printings / sugar / equivalent rewrites) must all compile if one does
    if prop in ("C02", "C10", "C16"):
        for b in eng.batches:
            failed = {(x["index"], x["variant"]) for x in b.compile_failures}
            for x in b.compile_failures:
                siblings = [e for e in b.map if e["index"] == x["index"] and (e["index"], e["variant"]) not in failed]
                if siblings:
                    y = dict(x)
                    y["what"] = "variant '%s' does not compile although variant '%s' of the same definition does: %s" % (
                        x["variant_label"], siblings[0]["label"], x["what"][:300])
                    res.violations.append(y)
    # a well-formed definition rejected with a *scoping* diagnostic contradicts the documented scoping
    if prop == "C16":
        for x in cf:
            if "Unbound variable" in x["what"] or "defined multiple times" in x["what"]:
                y = dict(x)
                y["what"] = "well-formed definition rejected by a scoping diagnostic: " + x["what"][:300]
                res.violations.append(y)
    return eng


def compile_specs(eng, name, specs, rounds=3):
    """Compile the given specs (s-expressions) as independent lexers in one binary; return the set of
    indices that expand and compile."""
    from vcheck import Batch
    alive = list(range(len(specs)))
    for rnd in range(rounds):
        if not alive:
            return set()
        bname = "%s_r%d" % (name, rnd)
        specfile = os.path.join(eng.work, bname + ".spec")
        with open(specfile, "w") as f:
            for i in alive:
                f.write("multi: %d\tminimal\t0\t0\t%s\n" % (i, specs[i]))
        out = os.path.join(eng.work, "src", "bin", bname + ".rs")
        rc, o, e, _ = run([eng.specgen, "replay", "--spec-file", specfile, "--name", bname, "--out", out], env=eng.env)
        if rc != 0:
            raise Inconclusive("specgen replay failed: " + e[-500:])
        with open(out + ".map.json") as f:
            m = json.load(f)
        b = Batch(bname, "replay", "replay", [0], {})
        b.map = m
        rc, outp, err, to = run(["cargo", "build", "--offline", "--message-format=json", "--bin", bname], cwd=eng.work, env=eng.env, timeout=3600)
        failed = set()
        built = False
        for line in outp.splitlines():
            if not line.startswith("{"):
                continue
            try:
                msg = json.loads(line)
            except ValueError:
                continue
            if msg.get("reason") == "compiler-artifact" and msg.get("target", {}).get("name") == bname and msg.get("executable"):
                built = True
            if msg.get("reason") == "compiler-message" and msg.get("message", {}).get("level") == "error":
                ent = eng._attribute(b, msg["message"])
                if ent is not None:
                    failed.add(alive[ent["variant"]])
        if built and not failed:
            return set(alive)
        if not failed:
            return set()
        alive = [i for i in alive if i not in failed]
    return set()


def has_ctx(spec_text):
    # (rule ID RE CTX ACT): CTX is "-" when absent. Cheap structural test on the s-expression.
    from sx import parse
    t = parse(spec_text)
    for s in t[4:]:
        for e in s[2:]:
            if e[0] == "rule" and e[3] != "-":
                return True
    return False


CHECKS = {p: generic for p in GENERIC}



# --------------------------------------------------------------------------------------------
# fixed engines

import subprocess
from vcheck import base_env, run, toolchain, repo_fingerprint, GenericEngine


def build_engine(root, pkg):
    env = base_env(root)
    rc, out, err, to = run(["cargo", "build", "--offline", "--release", "-p", pkg], cwd=os.path.join(root, "harness"), env=env, timeout=3600)
    if rc != 0:
        # the engine includes sources from /repo by path: a compile error there is about /repo
        raise Inconclusive("engine %s does not build against /repo's working tree: %s" % (pkg, err[-1500:]))
    return os.path.join(env["CARGO_TARGET_DIR"], "release", pkg)


def run_engine(root, exe, tier, seed, extra_env=None, timeout=7200):
    env = base_env(root)
    env["VERIF_TIER"] = tier
    env["VERIF_SEED"] = str(seed)
    env.update({k: str(v) for k, v in (extra_env or {}).items()})
    rc, out, err, to = run([exe], env=env, timeout=timeout)
    if to:
        raise Inconclusive("engine %s hit the wall-clock watchdog" % exe)
    recs = []
    for line in out.splitlines():
        if line.startswith("{"):
            try:
                recs.append(json.loads(line))
            except ValueError:
                pass
    if rc != 0 or not any(r.get("t") in ("S", "B") for r in recs):
        raise Inconclusive("engine %s exited with %s: %s" % (exe, rc, err[-800:]))
    return recs


CLASS_CFG = dict(
    rule="(i) the real RangeMap (range_map.rs included by path) driven through insert / insert_ranges / remove_ranges: exhaustively over a small universe (every base subset in maximal and split form x every second subset in both forms, every insert pair) and by random 1-8 operation sequences over the full code-point range with hostile end points (0, 0x7F, surrogate gap, char::MAX); after every operation sortedness, disjointness, no inverted piece and pointwise equality with a per-code-point fold of the operations are checked. (ii) random class expressions over sets, ranges, `_`, built-ins, `|`, `#` compiled through the real macro in three shapes (`E`, `E '!'`, `'?' > E`) and probed at every elementary-segment end point +-2. Non-trivial = remove operations whose removed range spans >= 2 pieces, equals a piece or touches a piece end point (counted by the monitor), plus distinct (class lexer, probe) pairs.",
    nt="nt_C02",
    parts=[("class", "base", 240, 3000, 20, dict(VP_THREADS=4), dict(VP_THREADS=4))],
)


def check_c11(root, prop, tier, seed, res):
    exe = build_engine(root, "rangemap_mon")
    recs = run_engine(root, exe, tier, seed)
    S = next(r for r in recs if r.get("t") == "S")
    for r in recs:
        if r.get("t") == "V":
            res.violations.append(r["v"])
    # class expressions through the real macro
    eng = run_generic(root, prop, tier, seed, res, cfg=CLASS_CFG, extra_props=("C02", "C04"))
    for x in eng.compile_failures():
        res.violations.append(x)
    res.coverage["evaluations"] += S["operations"]
    res.coverage["distinct_nontrivial"] += S["nontrivial"]
    res.coverage["samples"] = (res.coverage.get("samples") or [])[:2] + S.get("samples", [])[:2]
    res.extra["rangemap_monitor"] = {k: S[k] for k in S if k not in ("t", "samples")}
    res.extra["exhaustive"] = False
    res.extra["exhaustive_subspace"] = "all RangeMap operation pairs over universe {0..%d}" % (S["universe"] - 1)
    if res.inconclusive and res.inconclusive[-1].startswith("fewer than 2"):
        res.inconclusive.pop()


def check_c18(root, prop, tier, seed, res):
    exe = build_engine(root, "tablegen_mon")
    recs = run_engine(root, exe, tier, seed)
    S = next(r for r in recs if r.get("t") == "S")
    for r in recs:
        if r.get("t") == "V":
            res.violations.append(r["v"])
        elif r.get("t") == "H":
            res.inconclusive.append("harness: closed form disagrees with brute force: %s" % json.dumps(r.get("msg"))[:300])
    res.coverage["evaluations"] = S["predicates"]
    res.coverage["distinct_nontrivial"] = S["nontrivial"]
    res.coverage["rule"] = ("the real generate_char_fn_ranges (char_range_gen/src/main.rs included by path, hook H2) is called on every predicate defined by a subset of the boundary candidates %s (all subsets in thorough, subsets of size <= 3 in quick) x both polarities, plus the 20 real predicates; oracle: closed-form maximal scalar ranges (clipped around the surrogate gap), confirmed by brute force on a sample, plus well-formedness (sorted, disjoint, non-adjacent, scalar end points). Non-trivial = predicates that hold at 0, U+D7FF, U+E000 or char::MAX." % S["boundary_candidates"])
    res.coverage["samples"] = S.get("samples", [])
    res.coverage["exhaustive"] = bool(S.get("exhaustive"))
    res.extra["tablegen_monitor"] = {k: S[k] for k in S if k not in ("t", "samples")}
    res.extra["repo_fingerprint"] = repo_fingerprint()
    res.assumptions.append("std char predicates / unicode-xid of " + toolchain())


CHECKS["C11"] = check_c11
CHECKS["C18"] = check_c18


# --------------------------------------------------------------------------------------------
# C13: built-ins, all scalar values

def ranges_subset(obs, allowed):
    """obs, allowed: lists of [a,b]. Returns first code point of obs not covered by allowed, or None."""
    allowed = sorted(allowed)
    for a, b in obs:
        c = a
        while c <= b:
            hit = None
            for x, y in allowed:
                if x <= c <= y:
                    hit = y
                    break
            if hit is None:
                return c
            c = hit + 1
    return None


def check_c13(root, prop, tier, seed, res):
    import vbuiltin
    from vcheck import CARGO_TOML
    shapes = "abcde"   # all shapes in both tiers (the forced "other" shape costs ~6 s; e: all built-ins in one lexer)
    eng = GenericEngine(root, prop, tier, seed)
    eng.prepare()
    src = vbuiltin.gen_source(shapes, vbuiltin.table_sizes())
    name = "c13_%s_sweep" % tier[0]
    with open(os.path.join(eng.work, "src", "bin", name + ".rs"), "w") as f:
        f.write(src)
    env = dict(eng.env)
    t0 = time.time()
    rc, out, err, to = run(["cargo", "build", "--offline", "--release", "--bin", name], cwd=eng.work, env=env, timeout=3600)
    log("  build: rc=%s %.1fs" % (rc, time.time() - t0))
    if rc != 0:
        # a built-in lexer that does not compile: violation (the definition is trivially well-formed)
        res.violations.append({"what": "a one-rule built-in lexer does not expand/compile: " + err[-1500:], "family": "builtin", "index": 0})
        return
    exe = os.path.join(env["CARGO_TARGET_DIR"], "release", name)
    recs = run_engine(root, exe, tier, seed)
    if os.environ.get("VP_C13_DUMP"):
        with open(os.environ["VP_C13_DUMP"], "w") as f:
            json.dump(recs, f)
    known = [k for k in load_known(root) if k.get("property") == "C13" and k.get("status") == "open"]
    known_by = {k["builtin"]: k for k in known}
    pairs = 0
    evals = 0
    samples = []
    per = {}
    seen_known = {}
    for r in recs:
        if r.get("t") != "B":
            continue
        pairs += 1
        evals += r["accepted"] + r["rejected"]
        b, sh = r["builtin"], r["shape"]
        if sh == "e":
            sh = "e:" + r.get("kind", "") + ("+tail" if r.get("adj") == "plus_tail" else "")
        per["%s/%s" % (b, sh)] = {"accepted": r["accepted"], "rejected": r["rejected"], "missing": r["missing_count"], "extra": r["extra_count"]}
        if len(samples) < 3:
            samples.append({"builtin": b, "shape": sh, "accepted": r["accepted"], "rejected": r["rejected"]})
        if r["panics"]:
            res.violations.append({"what": "$$%s shape %s: %d panics while lexing single characters" % (b, sh, r["panics"]), "family": "builtin", "index": pairs})
        k = known_by.get(b)
        for kind in ("missing", "extra"):
            obs = r[kind]
            if not obs:
                continue
            allowed = (k or {}).get(kind, [])
            if r.get("adj") == "ascii_only":
                pass
            bad = ranges_subset(obs, allowed)
            if bad is not None:
                res.violations.append({
                    "what": "$$%s (shape %s): U+%04X is %s although the Rust predicate (with the class adjustment of that shape) says %s" % (
                        b, sh, bad, "rejected" if kind == "missing" else "accepted", "true" if kind == "missing" else "false"),
                    "family": "builtin", "index": pairs, "builtin": b, "shape": sh,
                    "definition": {"a": "$$%s = t" % b, "b": "$$%s '!' = t" % b, "c": "class-algebra variant of $$%s" % b, "d": "'!' > $$%s = t" % b}.get(sh, "all 20 built-ins in one lexer (60 rules: P $$B '!', Q ($$B | [U+10FFF0-U+10FFF1]) '!', R '!' > $$B); rule of $$%s, kind %s" % (b, sh)),
                    "input_shown": "U+%04X" % bad, "deviating_ranges_%s" % kind: obs[:50],
                })
            else:
                seen_known[b] = k
    for b, k in sorted(seen_known.items()):
        res.known.append((k, b))
    res.coverage["evaluations"] = evals
    res.coverage["distinct_nontrivial"] = pairs
    res.coverage["exhaustive"] = True
    res.coverage["rule"] = ("for each of the 20 built-in names and each generated membership-test shape (a: `$$B = t` per-range accept arms; b: `$$B '!' = t` guard chain or binary-search table; d: `'!' > $$B` right-context function; c: the other lookup shape forced through class algebra) a one-rule lexer is expanded by the real macro and run on ALL 1,112,064 scalar values; shape e: all 20 built-ins in ONE lexer, three rules each behind a private-use prefix character (`P $$B '!'`, `Q ($$B | [one trailing range]) '!'` whose range list extends that of $$B, `R '!' > $$B`), so that 30+ search tables, guard chains and 20 context functions coexist in one expansion, each again swept over all scalar values; oracle: the std / unicode-xid predicate. Non-trivial = (built-in, shape) pairs swept.")
    res.coverage["samples"] = samples
    res.extra["per_builtin_shape"] = per
    res.extra["toolchain"] = toolchain()
    res.extra["repo_fingerprint"] = repo_fingerprint()
    res.assumptions.append("the oracle is the predicate of the toolchain that builds /repo: " + toolchain())
    for p in (exe, exe + ".d"):
        if os.path.exists(p):
            os.remove(p)


CHECKS["C13"] = check_c13


# --------------------------------------------------------------------------------------------
# C12: expansion terminates (step budget), output compiles, expansion is deterministic

TINY = dict(VP_EXH_MAX=150, VP_EXH_LEN=4, VP_RANDOM=10, VP_GUIDED=10, VP_ALPHA_CAP=4, VP_THREADS=4)
TINY_T = dict(VP_EXH_MAX=600, VP_EXH_LEN=5, VP_RANDOM=20, VP_GUIDED=30, VP_ALPHA_CAP=5, VP_THREADS=4)

C12_CFG = dict(
    rule="every generated definition must expand within the step budget of hook H1 and compile without an error attributed to its lexer! invocation (rustc JSON diagnostics, attributed by line); shapes: several lexers (2-4, with search tables, right contexts and actions) declared in ONE module, large built-in classes in rules and in right contexts, right contexts of every operator shape, bracket sets repeating a character, 1-7 rule sets, cyclic automata with many accepting states, 40-70-rule realistic definitions (keywords, identifiers via XID classes, numbers with contexts, strings and comments through rule sets); two expansions of the same file in separate processes (rustc -Zunpretty=expanded) are compared byte-wise. Non-trivial = distinct lexers compiled.",
    nt="variants",
    # realistic definitions with XID classes legitimately need ~1e7-1e8 steps (quadratic range-map inserts)
    step_budget=1000000000,
    quick_scale=1.0,
    parts=[("multi", "multi", 60, 600, 6, TINY, TINY_T),
           ("bigclass", "base", 60, 800, 10, TINY, TINY_T),
           ("rctx", "base", 60, 800, 20, TINY, TINY_T),
           ("class", "base", 60, 600, 20, TINY, TINY_T),
           ("realistic", "base", 16, 160, 2, TINY, TINY_T),
           ("rulesets", "base", 60, 800, 20, TINY, TINY_T),
           ("munch", "base", 60, 1600, 20, TINY, TINY_T),
           ("mixed", "base", 60, 800, 20, TINY, TINY_T),
           ("eoictx", "base", 40, 800, 20, TINY, TINY_T)],
)


def check_c12(root, prop, tier, seed, res):
    t0 = time.time()
    eng = run_generic(root, prop, tier, seed, res, cfg=C12_CFG)
    for x in eng.compile_failures():
        res.violations.append(x)
    res.extra["build_and_run_wall_s"] = round(time.time() - t0, 1)
    # hand-written header shapes (attributes, visibility, lifetimes in state / token / error types, names)
    import vheaders
    from vcheck import Batch
    src, hmap = vheaders.gen_source()
    hname = "c12_%s_headers" % tier[0]
    with open(os.path.join(eng.work, "src", "bin", hname + ".rs"), "w") as f:
        f.write(src)
    hb = Batch(hname, "headers", "static", list(range(len(hmap))), {})
    hb.map = hmap
    rc, out, err, to = run(["cargo", "build", "--offline", "--message-format=json", "--bin", hname], cwd=eng.work, env=eng.env, timeout=3600)
    bad = {}
    for line in out.splitlines():
        if not line.startswith("{"):
            continue
        try:
            msg = json.loads(line)
        except ValueError:
            continue
        if msg.get("reason") == "compiler-message" and msg.get("message", {}).get("level") == "error":
            ent = eng._attribute(hb, msg["message"])
            text = msg["message"].get("message", "")
            if ent is not None:
                bad.setdefault(ent["index"], (ent, text))
            elif "aborting due to" not in text and "could not compile" not in text:
                bad.setdefault(-1, ({"label": "unattributed", "source": "", "index": -1}, text))
    for idx, (ent, text) in sorted(bad.items()):
        res.violations.append({"what": "header shape '%s' does not expand/compile: %s" % (ent["label"], text[:400]), "family": "headers",
                               "index": idx, "definition": ent["label"], "source": ent.get("source", "")})
    ran = False
    if rc == 0 and not bad:
        rc2, out2, err2, to2 = run([os.path.join(eng.env["CARGO_TARGET_DIR"], "debug", hname)], env=eng.env, timeout=600)
        ran = rc2 == 0 and "headers ok" in out2
        if not ran:
            res.violations.append({"what": "a lexer with a non-default header misbehaves or panics on a short input: " + (err2 or out2)[-600:],
                                   "family": "headers", "index": -2})
    elif rc != 0 and not bad:
        res.inconclusive.append("header batch failed to build without an attributable diagnostic: " + err[-500:])
    res.extra["header_shapes"] = {"compiled": len(hmap) - len([k for k in bad if k >= 0]), "total": len(hmap), "ran": ran}
    # determinism: expand two files twice in separate processes
    env = dict(eng.env)
    env["RUSTC_BOOTSTRAP"] = "1"
    picks = []
    for fam in ("multi", "realistic", "mixed"):
        b = next((b for b in eng.batches if b.family == fam and b.built), None)
        if b:
            picks.append(b)
    n_cmp = 0
    for b in picks[: (2 if tier == "quick" else 3)]:
        src = os.path.join(eng.work, "src", "bin", b.name + ".rs")
        outs = []
        for k in range(2):
            os.utime(src, None)
            rc, out, err, to = run(["cargo", "rustc", "--offline", "--bin", b.name, "--", "-Zunpretty=expanded"], cwd=eng.work, env=env, timeout=3600)
            if rc != 0 or not out:
                res.inconclusive.append("could not obtain the expanded source of %s: %s" % (b.name, err[-400:]))
                outs = None
                break
            outs.append(out)
        if outs:
            n_cmp += 1
            if outs[0] != outs[1]:
                a, bb = outs[0].splitlines(), outs[1].splitlines()
                i = next((i for i in range(min(len(a), len(bb))) if a[i] != bb[i]), min(len(a), len(bb)))
                res.violations.append({"what": "two expansions of the same definitions differ (first difference at expanded line %d)" % (i + 1),
                                       "family": b.family, "index": b.indices[0], "batch": b.name,
                                       "expected": a[i][:300] if i < len(a) else "", "observed": bb[i][:300] if i < len(bb) else ""})
    res.extra["double_expansions_compared"] = n_cmp
    res.extra["expanded_lines_compared"] = None
    if eng.ticks:
        ts = sorted(eng.ticks)
        res.extra["expansion_ticks"] = {"max": ts[-1], "median": ts[len(ts) // 2], "p99": ts[int(len(ts) * 0.99) - 1], "budget": int(eng.env.get("LEXGEN_VERIF_STEP_BUDGET"))}


CHECKS["C12"] = check_c12


# --------------------------------------------------------------------------------------------
# C17: ill-formed definitions are rejected

def check_c17(root, prop, tier, seed, res):
    eng = GenericEngine(root, prop, tier, seed)
    eng.prepare()
    n_cases = 24 if tier == "quick" else 240
    per = 4
    base = (seed % 1000) * 1000
    idx = list(range(base, base + n_cases))
    eng.add_batches("illformed", "base", idx, per, {})
    eng.generate()
    cmd = ["cargo", "check", "--offline", "--keep-going", "--message-format=json"]
    for b in eng.batches:
        cmd += ["--bin", b.name]
    t0 = time.time()
    rc, out, err, to = run(cmd, cwd=eng.work, env=eng.env, timeout=3600)
    log("  cargo check: rc=%s %.1fs" % (rc, time.time() - t0))
    if to:
        raise Inconclusive("cargo check hit the wall-clock watchdog")
    errors = {}   # (batch, case, variant) -> messages
    unattributed = []
    for line in out.splitlines():
        if not line.startswith("{"):
            continue
        try:
            m = json.loads(line)
        except ValueError:
            continue
        if m.get("reason") != "compiler-message":
            continue
        msg = m.get("message", {})
        if msg.get("level") != "error":
            continue
        tname = m.get("target", {}).get("name")
        b = next((x for x in eng.batches if x.name == tname), None)
        if b is None:
            continue
        ent = eng._attribute(b, msg)
        text = msg.get("message", "")
        for c in msg.get("children", []):
            if c.get("message"):
                text += " | " + c["message"]
        if ent is None:
            if "aborting due to" not in text and "could not compile" not in text:
                unattributed.append(text[:300])
            continue
        errors.setdefault((b.name, ent["case"], ent["variant"]), []).append(text[:300])
    kinds = {}
    evals = 0
    samples = []
    for b in eng.batches:
        ctrl_bad = set()
        for ent in b.map:
            key = (b.name, ent["case"], ent["variant"])
            evals += 1
            if ent["control"]:
                if key in errors:
                    ctrl_bad.add(ent["case"])
                    res.inconclusive.append("control (well-formed) definition illformed#%s is rejected: %s" % (ent["index"], errors[key][0]))
                continue
        for ent in b.map:
            if ent["control"]:
                continue
            key = (b.name, ent["case"], ent["variant"])
            k = kinds.setdefault(ent["label"], {"cases": 0, "rejected": 0, "positions": set()})
            k["cases"] += 1
            k["positions"].add(ent.get("where", ""))
            if key in errors:
                k["rejected"] += 1
                if len(samples) < 3:
                    samples.append({"violation": ent["label"], "where": ent.get("where"), "diagnostic": errors[key][0][:200]})
            else:
                res.violations.append({
                    "what": "ill-formed definition accepted without an error: %s (%s)" % (ent["label"], ent.get("where", "")),
                    "family": "illformed", "index": ent["index"], "variant": ent["variant"], "variant_label": ent["label"],
                    "definition": ent["label"], "source": ent["source"],
                })
    if unattributed and not errors:
        res.inconclusive.append("errors could not be attributed: %s" % unattributed[0])
    res.coverage["evaluations"] = evals
    res.coverage["distinct_nontrivial"] = sum(len(k["positions"]) for k in kinds.values())
    res.coverage["rule"] = ("each generated well-formed multi-rule-set definition (control, must produce no error) is turned into mutants with exactly one static violation at a random position: unbound variable (rule / context / used let), variable defined twice (top/top, top/local, local/local), rule set defined twice, first rule set not Init, Init not first, unknown built-in, each non-class operand kind on either side of `#` (string, *, +, ?, concatenation, $, variable bound to a string), named+unnamed rules mixed, error type twice, `type` item other than Error, and syntax errors (missing comma, missing right-hand side, dangling |, `rule` misspelt, stray token, missing ; after the header, let without =, string inside a bracket set); every mutant sits in its own module and must produce an error-level rustc diagnostic attributed to its own lines. Non-trivial = distinct (violation kind, position) pairs.")
    res.coverage["samples"] = samples
    res.extra["kinds"] = {k: {"cases": v["cases"], "rejected": v["rejected"], "distinct_positions": len(v["positions"])} for k, v in sorted(kinds.items())}
    res.extra["violation_kinds"] = len(kinds)
    res.extra["toolchain"] = toolchain()
    res.extra["repo_fingerprint"] = repo_fingerprint()
    if len(kinds) < 20 and not res.violations:
        res.inconclusive.append("only %d violation kinds were generated" % len(kinds))


CHECKS["C17"] = check_c17


# --------------------------------------------------------------------------------------------
# Miri leg (thorough tier of C09 and C15): the same monitors, executed by the UB interpreter

def miri_leg(root, prop, seed, res):
    from vcheck import CARGO_TOML
    import shutil
    eng = GenericEngine(root, prop + "miri", "thorough", seed)
    eng.prepare()
    eng.env["CARGO_TARGET_DIR"] = os.path.join(root, "harness", "target", "miri")
    eng.env["MIRIFLAGS"] = "-Zmiri-disable-isolation"
    # families without built-in classes (the reference model's built-in tables would take hours to
    # initialise under the interpreter)
    penv = {"VP_THREADS": 1, "VP_EXH_MAX": 30, "VP_EXH_LEN": 3, "VP_RANDOM": 3, "VP_GUIDED": 3, "VP_CLONES": 3,
            "VP_CTORS": 1, "VP_CROSS": 0, "VP_STUCK_CPU_S": 1000000}
    base = (seed % 1000) * 100000
    eng.add_batches("recover", "base", [base + i for i in range(4)], 1, penv)
    eng.add_batches("actions", "base", [base + i for i in range(2)], 1, penv)
    eng.add_batches("accum", "base", [base + i for i in range(2)], 1, penv)
    eng.generate()
    t0 = time.time()
    total = {"executions": 0, "clone_runs": 0, "lexers": 0}

    def one(b):
        env = dict(eng.env)
        env.update({k: str(v) for k, v in penv.items()})
        return (b,) + run(["cargo", "+nightly", "miri", "run", "--offline", "--bin", b.name], cwd=eng.work, env=env, timeout=3600)

    from concurrent.futures import ThreadPoolExecutor
    # the first invocation builds the dependencies for the interpreter; run it alone, then the rest in parallel
    results = [one(eng.batches[0])]
    with ThreadPoolExecutor(max_workers=8) as ex:
        results += list(ex.map(one, eng.batches[1:]))
    for (b, rc, out, err, to) in results:
        if to:
            res.inconclusive.append("miri leg: wall-clock watchdog (3600 s) on %s" % b.name)
            continue
        if "Undefined Behavior" in err:
            i = err.index("Undefined Behavior")
            res.violations.append({"what": "Miri reports undefined behaviour while running generated lexers: " + err[max(0, i - 200):i + 1200],
                                   "family": b.family, "index": b.indices[0], "batch": b.name})
            continue
        got = False
        for line in out.splitlines():
            if not line.startswith("{"):
                continue
            try:
                m = json.loads(line)
            except ValueError:
                continue
            if m.get("t") == "V" and m["v"].get("property") == prop:
                v = m["v"]
                v["what"] = "(under Miri) " + v.get("what", "")
                res.violations.append(v)
            elif m.get("t") == "S":
                got = True
                c = m["stats"]["counters"]
                total["executions"] += c.get("executions", 0)
                total["clone_runs"] += c.get("clone_runs", 0)
                total["lexers"] += c.get("variants", 0)
        if not got:
            res.inconclusive.append("miri leg: batch %s produced no statistics (rc=%s): %s" % (b.name, rc, err[-600:]))
    total["wall_s"] = round(time.time() - t0, 1)
    res.extra["miri_leg"] = total
    res.assumptions.append("Miri leg: generated lexers + lexgen_util interpreted by `cargo +nightly miri run` (the proc macro itself runs natively at compile time)")
    shutil.rmtree(eng.work, ignore_errors=True)


def generic_with_miri(root, prop, tier, seed, res):
    eng = generic(root, prop, tier, seed, res)
    if tier == "thorough" and os.environ.get("VP_NO_MIRI") != "1":
        miri_leg(root, prop, seed, res)
    return eng


CHECKS["C09"] = generic_with_miri
CHECKS["C15"] = generic_with_miri
