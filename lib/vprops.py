"""Per-property check functions."""
import json, os, re, sys, time
from vcheck import (run_generic, GENERIC, Inconclusive, log, load_known)


def generic(root, prop, tier, seed, res):
    eng = run_generic(root, prop, tier, seed, res)
    cf = eng.compile_failures()
    # a context-carrying definition that does not compile refutes "any regex may serve as a context"
    if prop == "C04":
        for x in cf:
            if " - (" not in x["spec"] or re.search(r"\(rule \d+ \S.*?\) \((?!do|try|simple)", x["spec"]):
                pass
        for x in cf:
            if has_ctx(x["spec"]):
                res.violations.append(x)
    return eng


def has_ctx(spec_text):
    # (rule ID RE CTX ACT): CTX is "-" when absent. Cheap structural test on the s-expression.
    from sx import parse
    t = parse(spec_text)
    for s in t[4:]:
        for e in s[2:]:
            if e[0] == "rule" and e[3] != "-":
                return True
    return False


CHECKS = {p: generic for p in GENERIC}


# --------------------------------------------------------------------------------------------
# fixed engines

import subprocess
from vcheck import base_env, run, toolchain, repo_fingerprint, GenericEngine


def build_engine(root, pkg):
    env = base_env(root)
    rc, out, err, to = run(["cargo", "build", "--offline", "--release", "-p", pkg], cwd=os.path.join(root, "harness"), env=env, timeout=3600)
    if rc != 0:
        # the engine includes sources from /repo by path: a compile error there is about /repo
        raise Inconclusive("engine %s does not build against /repo's working tree: %s" % (pkg, err[-1500:]))
    return os.path.join(env["CARGO_TARGET_DIR"], "release", pkg)


def run_engine(root, exe, tier, seed, extra_env=None, timeout=7200):
    env = base_env(root)
    env["VERIF_TIER"] = tier
    env["VERIF_SEED"] = str(seed)
    env.update({k: str(v) for k, v in (extra_env or {}).items()})
    rc, out, err, to = run([exe], env=env, timeout=timeout)
    if to:
        raise Inconclusive("engine %s hit the wall-clock watchdog" % exe)
    recs = []
    for line in out.splitlines():
        if line.startswith("{"):
            try:
                recs.append(json.loads(line))
            except ValueError:
                pass
    if rc != 0 or not any(r.get("t") in ("S", "B") for r in recs):
        raise Inconclusive("engine %s exited with %s: %s" % (exe, rc, err[-800:]))
    return recs


CLASS_CFG = dict(
    rule="(i) the real RangeMap (range_map.rs included by path) driven through insert / insert_ranges / remove_ranges: exhaustively over a small universe (every base subset in maximal and split form x every second subset in both forms, every insert pair) and by random 1-8 operation sequences over the full code-point range with hostile end points (0, 0x7F, surrogate gap, char::MAX); after every operation sortedness, disjointness, no inverted piece and pointwise equality with a per-code-point fold of the operations are checked. (ii) random class expressions over sets, ranges, `_`, built-ins, `|`, `#` compiled through the real macro in three shapes (`E`, `E '!'`, `'?' > E`) and probed at every elementary-segment end point +-2. Non-trivial = remove operations whose removed range spans >= 2 pieces, equals a piece or touches a piece end point (counted by the monitor), plus distinct (class lexer, probe) pairs.",
    nt="nt_C02",
    parts=[("class", "base", 240, 3000, 20, dict(VP_THREADS=4), dict(VP_THREADS=4))],
)


def check_c11(root, prop, tier, seed, res):
    exe = build_engine(root, "rangemap_mon")
    recs = run_engine(root, exe, tier, seed)
    S = next(r for r in recs if r.get("t") == "S")
    for r in recs:
        if r.get("t") == "V":
            res.violations.append(r["v"])
    # class expressions through the real macro
    eng = run_generic(root, prop, tier, seed, res, cfg=CLASS_CFG, extra_props=("C02", "C01", "C04", "C07", "C09"))
    for x in eng.compile_failures():
        res.violations.append(x)
    res.coverage["evaluations"] += S["operations"]
    res.coverage["distinct_nontrivial"] += S["nontrivial"]
    res.coverage["samples"] = (res.coverage.get("samples") or [])[:2] + S.get("samples", [])[:2]
    res.extra["rangemap_monitor"] = {k: S[k] for k in S if k not in ("t", "samples")}
    res.extra["exhaustive"] = False
    res.extra["exhaustive_subspace"] = "all RangeMap operation pairs over universe {0..%d}" % (S["universe"] - 1)
    if res.inconclusive and res.inconclusive[-1].startswith("fewer than 2"):
        res.inconclusive.pop()


def check_c18(root, prop, tier, seed, res):
    exe = build_engine(root, "tablegen_mon")
    recs = run_engine(root, exe, tier, seed)
    S = next(r for r in recs if r.get("t") == "S")
    for r in recs:
        if r.get("t") == "V":
            res.violations.append(r["v"])
        elif r.get("t") == "H":
            res.inconclusive.append("harness: closed form disagrees with brute force: %s" % json.dumps(r.get("msg"))[:300])
    res.coverage["evaluations"] = S["predicates"]
    res.coverage["distinct_nontrivial"] = S["nontrivial"]
    res.coverage["rule"] = ("the real generate_char_fn_ranges (char_range_gen/src/main.rs included by path, hook H2) is called on every predicate defined by a subset of the boundary candidates %s (all subsets in thorough, subsets of size <= 3 in quick) x both polarities, plus the 20 real predicates; oracle: closed-form maximal scalar ranges (clipped around the surrogate gap), confirmed by brute force on a sample, plus well-formedness (sorted, disjoint, non-adjacent, scalar end points). Non-trivial = predicates that hold at 0, U+D7FF, U+E000 or char::MAX." % S["boundary_candidates"])
    res.coverage["samples"] = S.get("samples", [])
    res.coverage["exhaustive"] = bool(S.get("exhaustive"))
    res.extra["tablegen_monitor"] = {k: S[k] for k in S if k not in ("t", "samples")}
    res.extra["repo_fingerprint"] = repo_fingerprint()
    res.assumptions.append("std char predicates / unicode-xid of " + toolchain())


CHECKS["C11"] = check_c11
CHECKS["C18"] = check_c18


# --------------------------------------------------------------------------------------------
# C13: built-ins, all scalar values

def ranges_subset(obs, allowed):
    """obs, allowed: lists of [a,b]. Returns first code point of obs not covered by allowed, or None."""
    allowed = sorted(allowed)
    for a, b in obs:
        c = a
        while c <= b:
            hit = None
            for x, y in allowed:
                if x <= c <= y:
                    hit = y
                    break
            if hit is None:
                return c
            c = hit + 1
    return None


def check_c13(root, prop, tier, seed, res):
    import vbuiltin
    from vcheck import CARGO_TOML
    shapes = "ab" if tier == "quick" else "abcd"
    eng = GenericEngine(root, prop, tier, seed)
    eng.prepare()
    src = vbuiltin.gen_source(shapes, vbuiltin.table_sizes())
    name = "c13_%s_sweep" % tier[0]
    with open(os.path.join(eng.work, "src", "bin", name + ".rs"), "w") as f:
        f.write(src)
    env = dict(eng.env)
    t0 = time.time()
    rc, out, err, to = run(["cargo", "build", "--offline", "--release", "--bin", name], cwd=eng.work, env=env, timeout=3600)
    log("  build: rc=%s %.1fs" % (rc, time.time() - t0))
    if rc != 0:
        # a built-in lexer that does not compile: violation (the definition is trivially well-formed)
        res.violations.append({"what": "a one-rule built-in lexer does not expand/compile: " + err[-1500:], "family": "builtin", "index": 0})
        return
    exe = os.path.join(env["CARGO_TARGET_DIR"], "release", name)
    recs = run_engine(root, exe, tier, seed)
    if os.environ.get("VP_C13_DUMP"):
        with open(os.environ["VP_C13_DUMP"], "w") as f:
            json.dump(recs, f)
    known = [k for k in load_known(root) if k.get("property") == "C13" and k.get("status") == "open"]
    known_by = {k["builtin"]: k for k in known}
    pairs = 0
    evals = 0
    samples = []
    per = {}
    seen_known = {}
    for r in recs:
        if r.get("t") != "B":
            continue
        pairs += 1
        evals += r["accepted"] + r["rejected"]
        b, sh = r["builtin"], r["shape"]
        per["%s/%s" % (b, sh)] = {"accepted": r["accepted"], "rejected": r["rejected"], "missing": r["missing_count"], "extra": r["extra_count"]}
        if len(samples) < 3:
            samples.append({"builtin": b, "shape": sh, "accepted": r["accepted"], "rejected": r["rejected"]})
        if r["panics"]:
            res.violations.append({"what": "$$%s shape %s: %d panics while lexing single characters" % (b, sh, r["panics"]), "family": "builtin", "index": pairs})
        k = known_by.get(b)
        for kind in ("missing", "extra"):
            obs = r[kind]
            if not obs:
                continue
            allowed = (k or {}).get(kind, [])
            if r.get("adj") == "ascii_only":
                pass
            bad = ranges_subset(obs, allowed)
            if bad is not None:
                res.violations.append({
                    "what": "$$%s (shape %s): U+%04X is %s although the Rust predicate says %s" % (
                        b, sh, bad, "rejected" if kind == "missing" else "accepted", "true" if kind == "missing" else "false"),
                    "family": "builtin", "index": pairs, "builtin": b, "shape": sh,
                    "definition": {"a": "$$%s = t" % b, "b": "$$%s '!' = t" % b, "c": "class-algebra variant of $$%s" % b, "d": "'!' > $$%s = t" % b}[sh],
                    "input_shown": "U+%04X" % bad, "deviating_ranges_%s" % kind: obs[:50],
                })
            else:
                seen_known[b] = k
    for b, k in sorted(seen_known.items()):
        res.known.append((k, b))
    res.coverage["evaluations"] = evals
    res.coverage["distinct_nontrivial"] = pairs
    res.coverage["exhaustive"] = True
    res.coverage["rule"] = ("for each of the 20 built-in names and each generated membership-test shape (a: `$$B = t` per-range accept arms; b: `$$B '!' = t` guard chain or binary-search table; thorough adds c: the other lookup shape forced through class algebra, d: `'!' > $$B` right-context function) a one-rule lexer is expanded by the real macro and run on ALL 1,112,064 scalar values; oracle: the std / unicode-xid predicate. Non-trivial = (built-in, shape) pairs swept.")
    res.coverage["samples"] = samples
    res.extra["per_builtin_shape"] = per
    res.extra["toolchain"] = toolchain()
    res.extra["repo_fingerprint"] = repo_fingerprint()
    res.assumptions.append("the oracle is the predicate of the toolchain that builds /repo: " + toolchain())
    for p in (exe, exe + ".d"):
        if os.path.exists(p):
            os.remove(p)


CHECKS["C13"] = check_c13
