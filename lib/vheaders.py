"""C12: hand-written header shapes (attributes, visibility, user state and token types with lifetimes,
error types, unusual names). Each is a well-formed definition taken from the README / the forms the
macro documents; every one must expand and compile (and lex a short input without panicking)."""

HEADERS = [
 ("no state, no visibility", """
    lexer! {
        Lexer -> u32;
        'a' = 1,
        ['b'-'d']+ = 2,
    }
    pub fn go() { let v: Vec<_> = Lexer::new("abcd").collect(); assert_eq!(v.len(), 2); }
"""),
 ("pub(crate) + doc comment + derive", """
    lexer! {
        /// A documented lexer.
        #[derive(Debug, Clone)]
        pub(crate) Lexer1 -> usize;
        'a' = 1,
    }
    pub fn go() { let l = Lexer1::new("a"); let mut m = l.clone(); assert!(m.next().is_some()); let _ = format!("{:?}", l); }
"""),
 ("token type borrowing 'input", """
    lexer! {
        pub Lexer -> &'input str;
        ['a'-'z']+ => |lexer| { let m = lexer.match_(); lexer.return_(m) },
        ' ',
    }
    pub fn go() { let v: Vec<_> = Lexer::new("ab cd").map(|r| r.unwrap().1).collect(); assert_eq!(v, vec!["ab", "cd"]); }
"""),
 ("tuple token with 'input and Vec user state", """
    lexer! {
        Lexer(Vec<u32>) -> (u32, &'input str);
        ['0'-'9']+ => |lexer| { let m = lexer.match_(); let n = lexer.state().len() as u32; lexer.state().push(n); lexer.return_((n, m)) },
        ' ',
    }
    pub fn go() { let v: Vec<_> = Lexer::new("1 22").map(|r| r.unwrap().1).collect(); assert_eq!(v, vec![(0, "1"), (1, "22")]); }
"""),
 ("user state with its own lifetime", """
    pub struct State<'a> { pub buffer: &'a mut String }
    lexer! {
        Lexer(State<'a>) -> ();
        rule Init {
            ' ',
            '"' => |lexer| { lexer.reset_match(); lexer.switch(LexerRule::Str) },
        }
        rule Str {
            '"' => |lexer| { lexer.switch_and_return(LexerRule::Init, ()) },
            _ => |lexer| { let c = lexer.match_().chars().last().unwrap(); lexer.state().buffer.push(c); lexer.continue_() },
        }
    }
    pub fn go() { let mut b = String::new(); { let mut l = Lexer::new_with_state("\\"ab\\" ", State { buffer: &mut b }); assert!(l.next().is_some()); } assert_eq!(b, "ab"); }
"""),
 ("error type with 'input, fallible rule", """
    #[derive(Debug, PartialEq, Clone)]
    pub struct MyErr<'a>(pub &'a str);
    lexer! {
        pub Lexer -> u32;
        type Error = MyErr<'input>;
        ['0'-'9']+ =? |lexer| { let m = lexer.match_(); match m.parse::<u32>() { Ok(n) if n < 100 => lexer.return_(Ok(n)), _ => lexer.return_(Err(MyErr(m))) } },
        ' ',
    }
    pub fn go() { let v: Vec<_> = Lexer::new("7 1234").collect(); assert!(v[0].is_ok() && v[1].is_err()); }
"""),
 ("lexer name ending in Rule, rule set named like the lexer", """
    lexer! {
        TokRule -> u8;
        rule Init { 'a' => |lexer| lexer.switch_and_return(TokRuleRule::TokRule, 1), }
        rule TokRule { 'b' => |lexer| lexer.switch_and_return(TokRuleRule::Init, 2), }
    }
    pub fn go() { let v: Vec<_> = TokRule::new("abab").collect(); assert_eq!(v.len(), 4); }
"""),
 ("lexer name with underscores and digits, from_iter constructors", """
    lexer! {
        pub My_Lexer_2(u64) -> char;
        _ => |lexer| { *lexer.state() += 1; let c = lexer.peek().unwrap_or('$'); lexer.return_(c) },
    }
    pub fn go() { let mut l = My_Lexer_2::new_from_iter_with_state("xyz".chars(), 5); assert_eq!(l.next().unwrap().unwrap().1, 'y'); let l2 = My_Lexer_2::new_from_iter("q".chars()); assert_eq!(l2.count(), 1); }
"""),
 ("generic user state type and static input", """
    lexer! {
        Lexer(std::collections::BTreeMap<String, Vec<(u8, u8)>>) -> &'static str;
        'x' = "x",
        $ = "end",
    }
    pub fn go() { let v: Vec<_> = Lexer::new("x").map(|r| r.unwrap().1).collect(); assert_eq!(v, vec!["x", "end"]); }
"""),
 ("two lexers with right contexts and tables in one module", """
    lexer! {
        A -> u8;
        $$alphabetic+ > ($$numeric | $) = 1,
        $$numeric+ = 2,
        ' ',
    }
    lexer! {
        AB -> u8;
        $$alphabetic+ > $$uppercase = 1,
        $$alphabetic+ = 3,
        $$uppercase = 2,
    }
    pub fn go() { assert_eq!(A::new("ab1").count(), 2); assert!(AB::new("abC").count() >= 1); }
"""),
("user state is a reference with its own lifetime", """
    lexer! {
        Lexer(&'a mut String) -> usize;
        ' ',
        ['a'-'z']+ => |lexer| { let m = lexer.match_(); lexer.state().push_str(m); lexer.return_(m.len()) },
    }
    pub fn go() { let mut b = String::new(); { let l = Lexer::new_with_state("ab cde", &mut b); let v: Vec<_> = l.map(|r| r.unwrap().1).collect(); assert_eq!(v, vec![2, 3]); } assert_eq!(b, "abcde"); }
"""),
 ("user state is a trait object bounded by a lifetime", """
    lexer! {
        Lexer(Box<dyn FnMut(&str) + 'a>) -> ();
        ' ',
        ['a'-'z']+ => |lexer| { let m = lexer.match_(); (lexer.state())(m); lexer.return_(()) },
    }
    pub fn go() { let mut words: Vec<String> = vec![]; { let l = Lexer::new_with_state("ab cde", Box::new(|w: &str| words.push(w.to_string()))); assert_eq!(l.count(), 2); } assert_eq!(words, vec!["ab", "cde"]); }
"""),
 ("user state with two lifetimes, a tuple of references, and 'input inside", """
    lexer! {
        Lexer((&'a str, &'b mut Vec<&'input str>)) -> u8;
        ' ',
        ['a'-'z']+ => |lexer| { let m = lexer.match_(); lexer.state().1.push(m); lexer.return_(1) },
    }
    pub fn go() { let input = String::from("ab cde"); let mut seen: Vec<&str> = vec![]; { let l = Lexer::new_with_state(&input, ("x", &mut seen)); assert_eq!(l.count(), 2); } assert_eq!(seen, vec!["ab", "cde"]); }
"""),
 ("user state type with a higher-ranked function pointer and 'static", """
    lexer! {
        Lexer((for<'x> fn(&'x str) -> &'x str, &'static str)) -> usize;
        _ => |lexer| { let m = lexer.match_(); let f = lexer.state().0; let n = f(m).len(); lexer.return_(n) },
    }
    fn id<'x>(s: &'x str) -> &'x str { s }
    pub fn go() { let l = Lexer::new_with_state("ab", (id, "s")); assert_eq!(l.count(), 2); }
"""),
 ("user state mentions one lifetime several times", """
    pub struct P<'a, 'b>(pub &'a str, pub &'b str);
    lexer! {
        Lexer((&'a str, &'a u32, P<'a, 'a>)) -> u8;
        _ = 1,
    }
    pub fn go() { let n = 3u32; let l = Lexer::new_with_state("ab", ("x", &n, P("", ""))); assert_eq!(l.count(), 2); }
"""),
 ("higher-ranked trait object in the user state next to a free lifetime", """
    lexer! {
        Lexer((Box<dyn for<'y> Fn(&'y str) -> &'y str + 'a>, &'a str)) -> usize;
        _ => |lexer| { let m = lexer.match_(); let n = (lexer.state().0)(m).len() + lexer.state().1.len(); lexer.return_(n) },
    }
    pub fn go() { let s = String::from("q"); let l = Lexer::new_with_state("ab", (Box::new(|x: &str| -> &str { x }), &s)); let v: Vec<_> = l.map(|r| r.unwrap().1).collect(); assert_eq!(v, vec![2, 2]); }
"""),
("action forms: generic fn paths (=> and =?), block, constant expression, match with commas, move closure", """
    use lexgen_util::SemanticActionResult;
    const K: u32 = 40;
    fn handler<'input, I: Iterator<Item = char> + Clone>(lexer: &mut Lexer<'input, I>) -> SemanticActionResult<Result<u32, String>> { let n = lexer.match_().len() as u32; lexer.return_(Ok(n)) }
    fn fallible<'input, I: Iterator<Item = char> + Clone>(lexer: &mut Lexer<'input, I>) -> SemanticActionResult<Result<u32, String>> { let m = lexer.match_(); lexer.return_(if m == "cc" { Err("cc".to_string()) } else { Ok(3) }) }
    lexer! {
        pub Lexer -> u32;
        type Error = String;
        'a'+ =? handler,
        'b' => { |lexer| lexer.return_(2) },
        'c'+ =? fallible,
        'd' = K + 2,
        'e' => |lexer| lexer.return_(match lexer.match_() { "e" => 5, _ => 6 }),
        'f' => move |lexer| { let (x, y) = (1u32, 6u32); lexer.return_(x + y) },
        ' ',
    }
    pub fn go() {
        let v: Vec<_> = Lexer::new("aaa b c cc d e f").map(|r| r.map(|t| t.1).map_err(|e| format!("{:?}", e.kind))).collect();
        assert_eq!(v, vec![Ok(3), Ok(2), Ok(3), Err("Custom(\\"cc\\")".to_string()), Ok(42), Ok(5), Ok(7)]);
    }
"""),
 ("restricted visibilities: pub(in path), pub(super), pub(self)", """
    pub mod outer {
        pub mod inner {
            use lexgen::lexer;
            lexer! {
                /// visible in `outer` only
                pub(in super::super::outer) LexIn -> u32;
                'a' = 1,
                ' ',
            }
            lexer! {
                pub(in crate) LexInCrate -> u32;
                'b' = 2,
            }
            lexer! {
                pub(super) LexSuper -> u32;
                'c' = 3,
            }
            lexer! {
                pub(self) LexSelf -> u32;
                'd' = 4,
            }
            pub fn own() -> usize { LexSelf::new("dd").count() }
        }
        pub fn lex() -> usize { inner::LexIn::new("a a").count() + inner::LexSuper::new("c").count() + inner::own() }
    }
    pub fn go() { assert_eq!(outer::lex(), 5); assert_eq!(outer::inner::LexInCrate::new("bb").count(), 2); }
""")]


def gen_source():
    """Returns (source, map) where map = list of dicts with start/end lines per header case."""
    lines = ["#![allow(unused, non_snake_case, non_camel_case_types, clippy::all)]", ""]
    m = []
    for i, (label, body) in enumerate(HEADERS):
        start = len(lines) + 1
        lines.append("mod h%d {" % i)
        lines.append("    use lexgen::lexer;")
        lines.extend(body.strip("\n").split("\n"))
        lines.append("}")
        m.append({"case": i, "variant": 0, "family": "headers", "index": i, "label": label, "start": start, "end": len(lines),
                  "spec": "", "summary": label, "source": body})
    lines.append("fn main() {")
    for i in range(len(HEADERS)):
        lines.append("    h%d::go();" % i)
    lines.append('    println!("headers ok");')
    lines.append("}")
    return "\n".join(lines) + "\n", m
