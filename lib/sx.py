"""Tiny s-expression reader (for spec texts)."""
def parse(s):
    toks = s.replace("(", " ( ").replace(")", " ) ").split()
    pos = [0]
    def rd():
        t = toks[pos[0]]; pos[0] += 1
        if t == "(":
            out = []
            while toks[pos[0]] != ")":
                out.append(rd())
            pos[0] += 1
            return out
        return t
    return rd()


def dump(t):
    if isinstance(t, list):
        return "(" + " ".join(dump(x) for x in t) + ")"
    return t


def strip_contexts(spec_text):
    """Return the spec with every right context removed."""
    t = parse(spec_text)
    for s in t[4:]:
        for e in s[2:]:
            if isinstance(e, list) and e and e[0] == "rule":
                e[3] = "-"
    return dump(t)
