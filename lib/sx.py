"""Tiny s-expression reader (for spec texts)."""
def parse(s):
    toks = s.replace("(", " ( ").replace(")", " ) ").split()
    pos = [0]
    def rd():
        t = toks[pos[0]]; pos[0] += 1
        if t == "(":
            out = []
            while toks[pos[0]] != ")":
                out.append(rd())
            pos[0] += 1
            return out
        return t
    return rd()
