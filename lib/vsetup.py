"""./check setup: build the harness from files on disk only (offline) and warm the dependency cache."""
import os, sys, shutil
from vcheck import base_env, run, log, GenericEngine, Inconclusive


def setup(root):
    env = base_env(root)
    h = os.path.join(root, "harness")
    if not os.path.exists(os.path.join(h, "Cargo.lock")):
        shutil.copy("/repo/Cargo.lock", os.path.join(h, "Cargo.lock"))
    # the reference model's self-tests (expectations transcribed from the repository's own tests)
    rc, out, err, to = run(["cargo", "test", "--offline", "-p", "vmodel"], cwd=h, env=env, timeout=3600)
    if rc != 0:
        print(out[-3000:] + err[-3000:])
        print("setup: reference-model self-test failed")
        return 1
    for args in (["cargo", "build", "--offline", "-p", "specgen"],
                 ["cargo", "build", "--offline", "--release", "-p", "rangemap_mon", "-p", "tablegen_mon"]):
        rc, out, err, to = run(args, cwd=h, env=env, timeout=3600)
        if rc != 0:
            print(err[-3000:])
            return 1
    # warm: one tiny batch builds lexgen (hooked), lexgen_util, syn, vmodel, vdrive in the shared target dir
    try:
        eng = GenericEngine(root, "setup", "quick", 1)
        eng.prepare()
        eng.add_batches("munch", "base", [0, 1], 2, {"VP_EXH_MAX": 20, "VP_RANDOM": 2, "VP_GUIDED": 2, "VP_THREADS": 1})
        eng.generate()
        eng.build()
        eng.run_all()
        eng.cleanup()
    except Inconclusive as e:
        print("setup: warm-up batch failed: %s" % e)
        return 1
    print("setup ok")
    return 0
