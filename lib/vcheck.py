"""Orchestrator for the lexgen runtime-monitoring checks."""
import json, os, subprocess, sys, time, shutil, hashlib, re, signal, random
from concurrent.futures import ThreadPoolExecutor

REPO = "/repo"
LEVEL = "exploration"


# --------------------------------------------------------------------------------------------
# utilities

def log(*a):
    print(*a, file=sys.stderr, flush=True)


def base_env(root):
    env = dict(os.environ)
    env["CARGO_NET_OFFLINE"] = "true"
    env["CARGO_TARGET_DIR"] = os.path.join(root, "harness", "target")
    env.setdefault("CARGO_TERM_COLOR", "never")
    env.pop("RUSTFLAGS", None)
    return env


def run(cmd, cwd=None, env=None, timeout=None, capture=True):
    """Run a command in its own process group; kill the group on timeout."""
    p = subprocess.Popen(cmd, cwd=cwd, env=env, stdout=subprocess.PIPE if capture else None,
                         stderr=subprocess.PIPE if capture else None, text=True, start_new_session=True)
    try:
        out, err = p.communicate(timeout=timeout)
        return p.returncode, out or "", err or "", False
    except subprocess.TimeoutExpired:
        try:
            os.killpg(p.pid, signal.SIGKILL)
        except ProcessLookupError:
            pass
        out, err = p.communicate()
        return -9, out or "", err or "", True


class Inconclusive(Exception):
    pass


def load_known(root):
    p = os.path.join(root, "known_findings.json")
    if not os.path.exists(p):
        return []
    with open(p) as f:
        return json.load(f).get("findings", [])


def repo_fingerprint():
    h = hashlib.sha256()
    for base, _, files in sorted(os.walk(os.path.join(REPO, "crates"))):
        if "/target" in base:
            continue
        for fn in sorted(files):
            if fn.endswith((".rs", ".toml")):
                p = os.path.join(base, fn)
                h.update(p.encode())
                with open(p, "rb") as f:
                    h.update(f.read())
    return h.hexdigest()[:16]


def toolchain():
    rc, out, _, _ = run(["rustc", "--version"])
    return out.strip()


# --------------------------------------------------------------------------------------------
# evidence / verdict

class Result:
    def __init__(self, prop, tier, seed):
        self.prop = prop
        self.tier = tier
        self.seed = seed
        self.violations = []     # dicts with at least 'what'
        self.known = []          # (finding, detail)
        self.inconclusive = []   # strings
        self.coverage = {"evaluations": 0, "distinct_nontrivial": 0, "rule": "", "samples": []}
        self.assumptions = []
        self.t0 = time.time()
        self.extra = {}

    def finish(self, root):
        wall = time.time() - self.t0
        ev = {
            "property_id": self.prop,
            "tier": self.tier,
            "seed": self.seed,
            "level": LEVEL,
            "coverage": self.coverage,
            "assumptions": self.assumptions,
            "wall_s": round(wall, 2),
            "violations": len(self.violations),
        }
        ev["coverage"].update(self.extra)
        if self.inconclusive:
            ev["coverage"]["inconclusive"] = self.inconclusive[:10]
        if self.known:
            ev["coverage"]["known_findings_observed"] = [k[0].get("key") for k in self.known]
        os.makedirs(os.path.join(root, "evidence"), exist_ok=True)
        path = os.path.join(root, "evidence", self.prop + ".json")
        tmp = path + ".tmp"
        with open(tmp, "w") as f:
            json.dump(ev, f, indent=1, ensure_ascii=False)
        os.replace(tmp, path)
        for k, detail in self.known:
            print("KNOWN-FINDING: property=%s %s" % (self.prop, k.get("what", k.get("key"))))
        rdir = os.path.join(root, "replays")
        if os.path.isdir(rdir):
            for fn in os.listdir(rdir):
                if fn.startswith("%s_%s_" % (self.prop, self.tier)):
                    os.remove(os.path.join(rdir, fn))
        if self.violations:
            os.makedirs(os.path.join(root, "replays"), exist_ok=True)
            seen = set()
            n = 0
            for v in self.violations:
                sig = (v.get("family"), v.get("index"), v.get("what", "")[:60])
                if sig in seen:
                    continue
                seen.add(sig)
                n += 1
                if n > 12:
                    break
                name = "%s_%s_%d_%d.json" % (self.prop, self.tier, self.seed, n)
                rp = os.path.join(root, "replays", name)
                v = dict(v)
                v["property"] = self.prop
                v["tier"] = self.tier
                v["seed"] = self.seed
                with open(rp, "w") as f:
                    json.dump(v, f, indent=1, ensure_ascii=False)
                print("VIOLATION property=%s replay=%s" % (self.prop, rp))
                log("  what: %s" % v.get("what"))
                if v.get("definition"):
                    log("  definition: %s" % v.get("definition"))
                if v.get("input_shown") is not None:
                    log("  input: %s" % v.get("input_shown"))
                if v.get("expected"):
                    log("  expected: %s" % str(v.get("expected"))[:400])
                if v.get("observed"):
                    log("  observed: %s" % str(v.get("observed"))[:400])
            log("%s: %d violation record(s), %.1fs" % (self.prop, len(self.violations), wall))
            return 1
        if self.inconclusive:
            for m in self.inconclusive[:10]:
                print("INCONCLUSIVE property=%s %s" % (self.prop, m))
            return 2
        log("%s %s: held on %d evaluations (%d distinct non-trivial), %.1fs" % (
            self.prop, self.tier, self.coverage["evaluations"], self.coverage["distinct_nontrivial"], wall))
        return 0


# --------------------------------------------------------------------------------------------
# generic engine: generated lexers compiled through the real macro

CARGO_TOML = """[package]
name = "{pkg}"
version = "0.1.0"
edition = "2021"

[workspace]

[dependencies]
lexgen = {{ path = "/repo/crates/lexgen", features = ["verif"] }}
lexgen_util = {{ path = "/repo/crates/lexgen_util" }}
vdrive = {{ path = "{root}/harness/vdrive" }}
vmodel = {{ path = "{root}/harness/vmodel" }}

[profile.dev]
debug = 0
opt-level = 0
incremental = false
overflow-checks = true
debug-assertions = true

[profile.dev.package.vmodel]
opt-level = 3
[profile.dev.package.vdrive]
opt-level = 3
"""


def build_tools(root):
    env = base_env(root)
    rc, out, err, to = run(["cargo", "build", "--offline", "-p", "specgen"], cwd=os.path.join(root, "harness"), env=env, timeout=1800)
    if rc != 0:
        raise Inconclusive("harness build failed: " + err[-2000:])
    return os.path.join(env["CARGO_TARGET_DIR"], "debug", "specgen")


class Batch:
    def __init__(self, name, family, mode, indices, plan_env):
        self.name = name
        self.family = family
        self.mode = mode
        self.indices = indices
        self.plan_env = plan_env
        self.skip = set()          # (case, variant)
        self.map = []
        self.compile_failures = []  # dicts
        self.built = False
        self.extra_args = []


class GenericEngine:
    def __init__(self, root, prop, tier, seed):
        self.root = root
        self.prop = prop
        self.tier = tier
        self.seed = seed
        self.pkg = "batch_%s_%s" % (prop.lower(), tier)
        self.work = os.path.join(root, "harness", "work", self.pkg)
        self.env = base_env(root)
        self.env["VERIF_SEED"] = str(seed)
        self.env["VERIF_TIER"] = tier
        self.env.setdefault("LEXGEN_VERIF_STEP_BUDGET", "20000000")
        self.specgen = None
        self.batches = []
        self.stats = {"counters": {}, "classes": {}, "samples": {}, "maxima": {}}
        self.violations = []
        self.harness_msgs = []
        self.stuck = []
        self.ticks = []

    def prepare(self):
        self.specgen = build_tools(self.root)
        if os.path.isdir(self.work):
            shutil.rmtree(self.work)
        os.makedirs(os.path.join(self.work, "src", "bin"))
        with open(os.path.join(self.work, "Cargo.toml"), "w") as f:
            f.write(CARGO_TOML.format(pkg=self.pkg, root=self.root))
        shutil.copy(os.path.join(REPO, "Cargo.lock"), os.path.join(self.work, "Cargo.lock"))

    def add_batches(self, family, mode, indices, per_bin, plan_env, extra_args=None):
        for i in range(0, len(indices), per_bin):
            chunk = indices[i:i + per_bin]
            name = "%s_%s_%s_b%d" % (self.prop.lower(), self.tier[0], family, len(self.batches))
            b = Batch(name, family, mode, chunk, plan_env)
            b.extra_args = extra_args or []
            self.batches.append(b)

    def _gen(self, b):
        out = os.path.join(self.work, "src", "bin", b.name + ".rs")
        cmd = [self.specgen, "batch", "--family", b.family, "--seed", str(self.seed), "--indices",
               ",".join(str(i) for i in b.indices), "--variants", b.mode, "--name", b.name, "--out", out] + b.extra_args
        if b.skip:
            cmd += ["--skip", ",".join("%d.%d" % s for s in sorted(b.skip))]
        rc, o, e, _ = run(cmd, env=self.env, timeout=600)
        if rc != 0:
            raise Inconclusive("specgen failed for %s: %s" % (b.name, e[-1000:]))
        with open(out + ".map.json") as f:
            b.map = json.load(f)

    def generate(self):
        with ThreadPoolExecutor(max_workers=8) as ex:
            list(ex.map(self._gen, self.batches))

    def _attribute(self, b, msg):
        """Find the (case, variant) map entry a rustc diagnostic belongs to."""
        def spans_of(m):
            for s in m.get("spans", []):
                yield s
                e = s.get("expansion")
                while e:
                    yield e["span"]
                    e = e["span"].get("expansion")
            for c in m.get("children", []):
                for s in spans_of(c):
                    yield s
        fn = b.name + ".rs"
        for s in spans_of(msg):
            if s.get("file_name", "").endswith(fn):
                ln = s.get("line_start", 0)
                for ent in b.map:
                    if ent["start"] <= ln <= ent["end"]:
                        return ent
        return None

    def build(self, max_rounds=5):
        """cargo build with JSON diagnostics; specs whose lexer! fails are recorded and skipped."""
        pending = list(self.batches)
        stats_file = os.path.join(self.work, "ticks.txt")
        self.env["LEXGEN_VERIF_STATS"] = stats_file
        for rnd in range(max_rounds):
            if not pending:
                break
            cmd = ["cargo", "build", "--offline", "--keep-going", "--message-format=json"]
            for b in pending:
                cmd += ["--bin", b.name]
            t0 = time.time()
            rc, out, err, to = run(cmd, cwd=self.work, env=self.env, timeout=3600)
            log("  build round %d: %d bins, rc=%s, %.1fs" % (rnd, len(pending), rc, time.time() - t0))
            if to:
                raise Inconclusive("cargo build exceeded the wall-clock watchdog (3600 s)")
            failed = {}
            built = set()
            other_errors = []
            for line in out.splitlines():
                if not line.startswith("{"):
                    continue
                try:
                    m = json.loads(line)
                except ValueError:
                    continue
                if m.get("reason") == "compiler-artifact":
                    t = m.get("target", {})
                    if "bin" in t.get("kind", []) and m.get("executable"):
                        built.add(t.get("name"))
                elif m.get("reason") == "compiler-message":
                    msg = m.get("message", {})
                    if msg.get("level") != "error":
                        continue
                    tname = m.get("target", {}).get("name")
                    b = next((x for x in pending if x.name == tname), None)
                    if b is None:
                        other_errors.append(msg.get("rendered", "")[:500])
                        continue
                    ent = self._attribute(b, msg)
                    if ent is None:
                        if "aborting due to" in msg.get("message", "") or "could not compile" in msg.get("message", ""):
                            continue
                        other_errors.append(msg.get("rendered", "")[:800])
                        continue
                    failed.setdefault(b.name, []).append((ent, msg))
            still = []
            for b in pending:
                if b.name in built and b.name not in failed:
                    b.built = True
                    continue
                if b.name in failed:
                    seen = set()
                    for ent, msg in failed[b.name]:
                        key = (ent["case"], ent["variant"])
                        if key in seen:
                            continue
                        seen.add(key)
                        b.skip.add(key)
                        text = msg.get("message", "")
                        for c in msg.get("children", []):
                            if c.get("message"):
                                text += " | " + c["message"]
                        b.compile_failures.append({
                            "family": ent["family"], "index": ent["index"], "variant": ent["variant"],
                            "variant_label": ent["label"], "spec": ent["spec"], "definition": ent["summary"],
                            "source": ent["source"], "what": "lexer! does not expand/compile: " + text[:600],
                            "rustc": (msg.get("rendered") or "")[:3000], "batch": b.name,
                        })
                    self._gen(b)
                    still.append(b)
                elif b.name not in built:
                    if other_errors:
                        raise Inconclusive("batch %s failed to build for a reason not attributable to a lexer! invocation: %s" % (b.name, other_errors[0]))
                    raise Inconclusive("batch %s was not built (rc=%s): %s" % (b.name, rc, err[-1500:]))
            pending = still
        if pending:
            raise Inconclusive("batches still failing to build after %d rounds: %s" % (max_rounds, [b.name for b in pending]))
        if os.path.exists(stats_file):
            with open(stats_file) as f:
                for l in f:
                    m = re.search(r"ticks=(\d+)", l)
                    if m:
                        self.ticks.append(int(m.group(1)))

    def _run_one(self, b):
        exe = os.path.join(self.env["CARGO_TARGET_DIR"], "debug", b.name)
        env = dict(self.env)
        env.update({k: str(v) for k, v in b.plan_env.items()})
        t0 = time.time()
        rc, out, err, to = run([exe], env=env, timeout=float(env.get("VP_WALL_WATCHDOG", "7200")))
        return b, rc, out, err, to, time.time() - t0

    def run_all(self, parallel=None):
        bs = [b for b in self.batches if b.built]
        threads = int(bs[0].plan_env.get("VP_THREADS", 4)) if bs else 4
        par = parallel or max(1, min(len(bs), (os.cpu_count() or 16) // max(1, threads) + 1))
        with ThreadPoolExecutor(max_workers=par) as ex:
            for b, rc, out, err, to, dt in ex.map(self._run_one, bs):
                got_stats = False
                for line in out.splitlines():
                    if not line.startswith("{"):
                        continue
                    try:
                        m = json.loads(line)
                    except ValueError:
                        continue
                    t = m.get("t")
                    if t == "V":
                        v = m["v"]
                        ent = next((e for e in b.map if e["family"] == v["family"] and e["index"] == v["index"] and e["variant"] == v["variant"]), None)
                        if ent:
                            v["definition"] = ent["summary"]
                            v["source"] = ent["source"]
                            v["variants"] = [{"label": e["label"], "spec": e["spec"]} for e in b.map if e["index"] == v["index"] and e["family"] == v["family"]]
                        self.violations.append(v)
                    elif t == "H":
                        self.harness_msgs.append("%s#%s: %s" % (m.get("family"), m.get("index"), m.get("msg")))
                    elif t == "STUCK":
                        # attach the definitions of the executions in flight, so the record can be replayed
                        for x in m.get("in_flight", []):
                            ent = next((e for e in b.map if e["family"] == x["family"] and e["index"] == x["index"] and e["variant"] == x["variant"]), None)
                            if ent:
                                x["definition"] = ent["summary"]
                                x["source"] = ent["source"]
                                x["spec"] = ent["spec"]
                                x["variant_label"] = ent["label"]
                                x["variants"] = [{"label": e["label"], "spec": e["spec"]} for e in b.map if e["index"] == x["index"] and e["family"] == x["family"]]
                        self.stuck.append(m)
                    elif t == "S":
                        got_stats = True
                        self._merge(m["stats"])
                if to:
                    self.harness_msgs.append("batch %s hit the wall-clock watchdog" % b.name)
                elif rc == 3 and self.stuck:
                    pass
                elif rc != 0 or not got_stats:
                    self.harness_msgs.append("batch %s exited with %s: %s" % (b.name, rc, err[-500:]))

    def _merge(self, st):
        for k, v in st.get("counters", {}).items():
            self.stats["counters"][k] = self.stats["counters"].get(k, 0) + v
        for g, m in st.get("classes", {}).items():
            d = self.stats["classes"].setdefault(g, {})
            for k, v in m.items():
                d[k] = d.get(k, 0) + v
        for k, v in st.get("samples", {}).items():
            d = self.stats["samples"].setdefault(k, [])
            for x in v:
                if len(d) < 3:
                    d.append(x)
        for k, v in st.get("maxima", {}).items():
            self.stats["maxima"][k] = max(self.stats["maxima"].get(k, 0), v)

    def compile_failures(self):
        out = []
        for b in self.batches:
            out.extend(b.compile_failures)
        return out

    def cleanup(self):
        # remove the built batch executables (they are large); keep dependency artifacts
        tdir = os.path.join(self.env["CARGO_TARGET_DIR"], "debug")
        for b in self.batches:
            for p in (os.path.join(tdir, b.name), os.path.join(tdir, b.name + ".d")):
                if os.path.exists(p):
                    os.remove(p)
            dd = os.path.join(tdir, "deps")
            if os.path.isdir(dd):
                for fn in os.listdir(dd):
                    if fn.startswith(b.name + "-"):
                        try:
                            os.remove(os.path.join(dd, fn))
                        except OSError:
                            pass


def sample_indices(total, n, seed, tag):
    rnd = random.Random("%s/%s" % (seed, tag))
    if n >= total:
        return list(range(total))
    return sorted(rnd.sample(range(total), n))


# --------------------------------------------------------------------------------------------
# per-property plans for the generic engine

def P(**kw):
    return kw


SMALL = P(VP_EXH_MAX=1200, VP_EXH_LEN=8, VP_RANDOM=30, VP_GUIDED=40, VP_ALPHA_CAP=5, VP_THREADS=4)
BIG = P(VP_EXH_MAX=12000, VP_EXH_LEN=9, VP_RANDOM=150, VP_GUIDED=200, VP_ALPHA_CAP=6, VP_THREADS=4, VP_RANDOM_HI=120, VP_GUIDED_HI=80)


def merged(a, **kw):
    d = dict(a)
    d.update(kw)
    return d


# bounded-exhaustive families: number of enumerated trees (indices below it are seed-independent)
EXHAUSTIVE_FAMILIES = {"langx": 3815, "precx": 2085}

LANG_Q = merged(SMALL, VP_EXH_MAX=4000, VP_EXH_LEN=6, VP_RANDOM=20, VP_GUIDED=20, VP_ALPHA_CAP=5)
LANG_T = merged(BIG, VP_EXH_MAX=20000, VP_EXH_LEN=7, VP_RANDOM=60, VP_GUIDED=60, VP_ALPHA_CAP=5)

GENERIC = {
    "C02": dict(
        rule="one-rule lexers for regex syntax trees: bounded-exhaustive (all 3815 trees with <= 2 operators over the atoms a, b, [a-b], [a-c], _, \"ab\", $$ascii_lowercase; thorough runs all, quick a seeded sample) plus random 3-operator and larger trees incl. `#`, plus the same random trees over 1-4-byte and zero-width characters with many string literals (family langu), each paired with a language-preserving rewrite (r+ = r r*, a|b = b|a, string = concatenation of its characters, r* = (r+)?) compiled as a second lexer; every string up to length 5-7 over {a,b,c,d,foreign}; oracle: derivative matcher cross-checked with a denotational matcher, and pairwise equality of the partner lexers. Non-trivial = distinct definitions with at least one operator.",
        nt="nt_C02_cases",
        thorough_scale=1,
        parts=[("langx", "equiv", 320, 4800, 20, LANG_Q, LANG_T), ("lang", "equiv", 120, 1600, 20, LANG_Q, LANG_T), ("langu", "equiv", 60, 800, 20, LANG_Q, LANG_T)],
    ),
    "C16": dict(
        rule="regex trees over {a, b, [a-b], [b-c], _} with * + ? concatenation | and # (bounded-exhaustive: all 2085 trees with <= 2 operators, plus random trees with 3-6 operators) and multi-rule-set definitions with top-level and rule-set-local lets (the same local name bound differently in different rule sets); every definition is printed four ways (fewest parentheses the documented grammar allows, fully parenthesised, redundant parentheses, subtrees named with let) and each printing compiled through the real macro; all printings must agree with the reference matcher on the TREE (which never passes through a parser) and with each other. Non-trivial = (definition, wrong grammar) pairs in which the minimal printing, read by a WRONG grammar (postfix tighter than #, | tighter than concatenation, # right-associative, postfix applying to the whole preceding concatenation), is rejected or denotes a language that some input of the run separates from the tree's language - i.e. cases in which the run would notice that mis-reading.",
        nt="nt_C16",
        thorough_scale=1,
        parts=[("precx", "print", 240, 3200, 10, LANG_Q, LANG_T), ("scope", "print", 60, 600, 10, SMALL, BIG), ("mixed", "print", 40, 600, 10, SMALL, BIG)],
    ),
    # prop: (rule text, nontrivial counter, [ (family, mode, quick_n, thorough_n, per_bin, quick_env, thorough_env) ], min_nontrivial)
    "C01": dict(
        rule="random 2-6 rule single-rule-set definitions over 3-5 letters (shared prefixes, cycles, joins, overlapping ranges, `_`), compiled through the real lexer! macro; inputs: all strings up to a length bound over the definition's alphabet plus one foreign letter, automaton-guided strings with failing continuations, random strings; oracle: reference maximal-munch lexer (derivative automaton, cross-checked against a denotational matcher). Non-trivial = distinct (definition, input) pairs in which the reference rewound at least one character or resolved a tie between two or more rules.",
        nt="nt_C01",
        parts=[("munch", "base", 320, 4800, 20, SMALL, BIG), ("rctx", "base", 100, 1600, 20, SMALL, BIG),
               ("mixedx", "base", 40, 600, 20, merged(SMALL, VP_ALPHA_CAP=6), merged(BIG, VP_ALPHA_CAP=7))],
    ),
    "C03": dict(
        rule="definitions with 2-7 rule sets (empty sets, shuffled declaration order, shared prefixes, self-switches, switch-and-return, switches in fallible rules); oracle: reference lexer; a divergence is attributed to C03 when the observed action belongs to a rule set other than the reference's active one, or when restarting the reference in another rule set reproduces the remaining observed history; the eoi family adds `$` rules inside non-Init rule sets, the eoiseq family enumerates every ordered triple of twelve tiny rule-set shapes (`$` after 0-3 characters, plain literals, `$` alone) behind an Init that switches into them, so that a `$` edge renumbered wrongly when the automata are concatenated lands in a neighbouring rule set. Non-trivial = distinct (definition, input) pairs whose reference run enters two or more rule sets.",
        nt="nt_C03",
        parts=[("rulesets", "base", 240, 3600, 20, SMALL, BIG), ("recover", "base", 120, 1600, 20, SMALL, BIG), ("eoi", "base", 100, 1600, 20, SMALL, BIG),
               ("mixedx", "base", 40, 600, 20, merged(SMALL, VP_ALPHA_CAP=6), merged(BIG, VP_ALPHA_CAP=7)),
               ("eoiseq", "base", 160, 3456, 20, merged(SMALL, VP_ALPHA_CAP=10, VP_EXH_MAX=1200, VP_GUIDED=80), merged(BIG, VP_ALPHA_CAP=10, VP_EXH_MAX=12000, VP_GUIDED=300))],
    ),
    "C04": dict(
        rule="rules with right contexts of every operator shape (multi-character literals, sets, repetition, nullable, `$`, class differences, built-ins) at every priority position, mixed with context-free rules; the eoictx family adds contexts in which `$` repeats, sits under `*` / `+` or is followed by further factors. Non-trivial = distinct (definition, input) pairs in which at least one context evaluation failed and at least one succeeded.",
        nt="nt_C04",
        parts=[("rctx", "base", 320, 4800, 20, SMALL, BIG), ("scope", "base", 60, 800, 20, SMALL, BIG), ("eoictx", "base", 120, 1600, 20, SMALL, BIG),
               ("mixedx", "base", 40, 600, 20, merged(SMALL, VP_ALPHA_CAP=6), merged(BIG, VP_ALPHA_CAP=7))],
    ),
    "C05": dict(
        rule="definitions with `$` rules in Init / other rule sets / contexts and rules that only complete at end of input; all strings up to a bound (so the input ends at every point). Model-free monitors: fused stream (3 extra next() calls after None), conservation (no character skipped without match or error). Non-trivial = distinct (definition, input) pairs ending outside Init, inside a lexeme, after a rewind, or through a `$` rule.",
        nt="nt_C05",
        parts=[("eoi", "base", 320, 4800, 20, SMALL, BIG),
               ("mixedx", "base", 40, 600, 20, merged(SMALL, VP_ALPHA_CAP=6), merged(BIG, VP_ALPHA_CAP=7)),
               ("eoiseq", "base", 80, 1728, 20, merged(SMALL, VP_ALPHA_CAP=10, VP_EXH_MAX=1200, VP_GUIDED=80), merged(BIG, VP_ALPHA_CAP=10, VP_EXH_MAX=12000, VP_GUIDED=300))],
    ),
    "C06": dict(
        rule="definitions over an alphabet mixing ASCII, LF, TAB, 2-4 byte, double-width and zero-width characters; every Loc in tokens, errors and action logs is rescanned from the beginning of the input (model-free oracle), spans ordered and on char boundaries, input[start..end] == match_(). Non-trivial = distinct (definition, input) pairs with a rewind across a non-ASCII/TAB/LF character.",
        nt="nt_C06",
        parts=[("loc", "base", 240, 3200, 20, merged(SMALL, VP_ALPHA_CAP=7, VP_EXH_MAX=3000), merged(BIG, VP_ALPHA_CAP=8, VP_EXH_MAX=40000)),
               ("mixedx", "base", 40, 600, 20, merged(SMALL, VP_ALPHA_CAP=6), merged(BIG, VP_ALPHA_CAP=7))],
    ),
    "C07": dict(
        rule="definitions with fallible rules returning Err under guards (after accumulated continue_ matches, after switches); oracle: reference lexer; projection: error items (kind, payload, location). Non-trivial = distinct (definition, input) pairs with at least one error item.",
        nt="nt_C07",
        parts=[("actions", "base", 200, 2400, 20, SMALL, BIG), ("munch", "base", 120, 2400, 20, SMALL, BIG),
               ("mixedx", "base", 40, 600, 20, merged(SMALL, VP_ALPHA_CAP=6), merged(BIG, VP_ALPHA_CAP=7))],
    ),
    "C08": dict(
        rule="multi-rule-set definitions with failures inside non-Init rule sets followed by text lexable both in Init and (differently) in the abandoned set; oracle: reference lexer (failure => Init, persistently; user state untouched). Non-trivial = distinct (definition, input) pairs with a failure outside Init followed by two or more items.",
        nt="nt_C08",
        parts=[("recover", "base", 320, 4800, 20, SMALL, BIG),
               ("mixedx", "base", 40, 600, 20, merged(SMALL, VP_ALPHA_CAP=6), merged(BIG, VP_ALPHA_CAP=7))],
    ),
    "C09": dict(
        rule="all constructors incl. a counting iterator; monitors: panics (catch_unwind), items <= n+1, actions <= n+1, read budget, CPU watchdog; inputs include scalar values no definition mentions (U+0000, U+007F/80, both sides of the surrogate gap, U+FFFF/10000, U+EFFFF/F0000, U+10FFFF) alone and after short prefixes, definitions whose classes compile to binary-search tables (bigclass family), stress strings of 3k (quick) / 10k (thorough) characters, ten times that for the all-unlexable input (one repeated character, only unlexable characters, long near-matches). Non-trivial = distinct (definition, input) pairs with n >= 1000, a rewind, or an error at the end.",
        nt="nt_C09",
        parts=[("progress", "base", 200, 2400, 20, merged(SMALL, VP_STRESS_N=3000, VP_CTORS=1, VP_HOSTILE=1), merged(BIG, VP_STRESS_N=10000, VP_CTORS=1, VP_HOSTILE=1)),
               ("mixed", "base", 120, 2400, 20, merged(SMALL, VP_CTORS=1, VP_HOSTILE=1), merged(BIG, VP_CTORS=1, VP_HOSTILE=1)),
               ("bigclass", "base", 40, 600, 10, merged(SMALL, VP_HOSTILE=1), merged(BIG, VP_HOSTILE=1)),
               ("mixedx", "base", 40, 600, 20, merged(SMALL, VP_ALPHA_CAP=6, VP_CTORS=1, VP_HOSTILE=1), merged(BIG, VP_ALPHA_CAP=7, VP_CTORS=1, VP_HOSTILE=1))],
    ),
    "C10": dict(
        rule="definitions with every assignment of action kinds (skip, simple, return, continue with/without reset, switch, switch-and-return, fallible ok/err) under guards on peek/length/counter; oracle: reference lexer on the full action log (match_loc, match_, peek, counter, match after reset) and items; metamorphic: sugar forms vs their documented desugaring. Non-trivial = distinct (definition, input) pairs whose action history has length >= 3 and >= 2 different kinds.",
        nt="nt_C10",
        parts=[("actions", "desugar", 200, 3200, 20, merged(SMALL, VP_CTORS=1), merged(BIG, VP_CTORS=1)), ("accum", "desugar", 160, 2400, 20, SMALL, BIG),
               ("mixedx", "base", 40, 600, 20, merged(SMALL, VP_ALPHA_CAP=6, VP_CTORS=1), merged(BIG, VP_ALPHA_CAP=7, VP_CTORS=1))],
    ),
    "C14": dict(
        rule="every execution is repeated with new, new_from_iter(Chars), new_from_iter_with_state(Chars), and both iterator constructors over a counting iterator (different Clone implementation); all item streams and action logs (minus match_ text) must equal those of new_with_state; the loc family adds inputs with LF, TAB, 2-4 byte, double-width and zero-width characters (columns must agree too). Non-trivial = distinct (definition, input) pairs with a rewind (iterator re-seated) or a context evaluation.",
        nt="nt_C14",
        parts=[("mixed", "base", 200, 2400, 20, merged(SMALL, VP_CTORS=1), merged(BIG, VP_CTORS=1)),
               ("rctx", "base", 120, 2400, 20, merged(SMALL, VP_CTORS=1), merged(BIG, VP_CTORS=1)),
               ("loc", "base", 80, 1200, 20, merged(SMALL, VP_CTORS=1, VP_ALPHA_CAP=7, VP_EXH_MAX=1500), merged(BIG, VP_CTORS=1, VP_ALPHA_CAP=8, VP_EXH_MAX=12000)),
               ("mixedx", "base", 40, 600, 20, merged(SMALL, VP_ALPHA_CAP=6, VP_CTORS=1), merged(BIG, VP_ALPHA_CAP=7, VP_CTORS=1))],
    ),
    "C15": dict(
        rule="lexers derive Clone; for every input and every clone point k in 0..=calls+1 (after errors, switches, the final None) and three interleavings (original first, clone first, alternating) both must produce the primary run's remaining stream; the bigclass family adds lexers with several table-compiled classes (state that lives outside the lexer value, e.g. a cache next to a table, would be shared between clone and original). Non-trivial = distinct (definition, input) pairs with a rewind, a switch or a failure before some clone point.",
        nt="nt_C15",
        parts=[("mixed", "base", 200, 2400, 20, merged(SMALL, VP_CLONES=1, VP_EXH_MAX=400, VP_RANDOM=10, VP_GUIDED=20), merged(BIG, VP_CLONES=1, VP_EXH_MAX=3000)),
               ("recover", "base", 120, 2400, 20, merged(SMALL, VP_CLONES=1, VP_EXH_MAX=400, VP_RANDOM=10, VP_GUIDED=20), merged(BIG, VP_CLONES=1, VP_EXH_MAX=3000)),
               ("bigclass", "base", 40, 600, 10, merged(SMALL, VP_CLONES=1, VP_EXH_MAX=400, VP_RANDOM=10, VP_GUIDED=20), merged(BIG, VP_CLONES=1, VP_EXH_MAX=3000)),
               ("mixedx", "base", 40, 600, 20, merged(SMALL, VP_ALPHA_CAP=6, VP_CLONES=1, VP_EXH_MAX=400, VP_RANDOM=10, VP_GUIDED=20), merged(BIG, VP_ALPHA_CAP=7, VP_CLONES=1, VP_EXH_MAX=3000))],
    ),
}


def run_generic(root, prop, tier, seed, res, cfg=None, extra_props=()):
    cfg = cfg or GENERIC[prop]
    eng = GenericEngine(root, prop, tier, seed)
    if cfg.get("step_budget"):
        eng.env["LEXGEN_VERIF_STEP_BUDGET"] = str(cfg["step_budget"])
    eng.prepare()
    for (family, mode, qn, tn, per_bin, qenv, tenv) in cfg["parts"]:
        # VP_SCALE multiplies the number of definitions (default: quick x1.5, thorough x2)
        scale = float(os.environ.get("VP_SCALE", str(cfg.get("quick_scale", 1.5)) if tier == "quick" else str(cfg.get("thorough_scale", 2))))
        n = int((qn if tier == "quick" else tn) * scale)
        n = max(per_bin, (n // per_bin) * per_bin)
        penv = qenv if tier == "quick" else tenv
        # indices depend on the seed so that different seeds explore different definitions
        base = (seed % 1000) * 100000
        if family in EXHAUSTIVE_FAMILIES:
            total = EXHAUSTIVE_FAMILIES[family]
            frac = {"precx": (1, 3)}.get(family, (3, 4))
            n_exh = total if tier == "thorough" else min(total, (n * frac[0]) // frac[1])
            idx = sample_indices(total, n_exh, seed, family) + [total + base + i for i in range(max(0, n - n_exh))]
        else:
            idx = list(range(base, base + n))
        eng.add_batches(family, mode, idx, per_bin, penv)
    log("%s %s: %d batches" % (prop, tier, len(eng.batches)))
    eng.generate()
    eng.build()
    eng.run_all()
    finish_generic(eng, res, cfg, prop, extra_props)
    eng.cleanup()
    return eng


def finish_generic(eng, res, cfg, prop, extra_props=()):
    c = eng.stats["counters"]
    res.coverage["evaluations"] = c.get("executions", 0)
    res.coverage["distinct_nontrivial"] = c.get(cfg["nt"], 0)
    res.coverage["rule"] = cfg["rule"]
    res.coverage["samples"] = eng.stats["samples"].get(prop, [])[:3] or [s for v in eng.stats["samples"].values() for s in v][:2]
    res.extra.update({
        "definitions_compiled": c.get("cases", 0),
        "lexers_compiled": c.get("variants", 0),
        "inputs": c.get("inputs", 0),
        "items_observed": c.get("items_observed", 0),
        "actions_observed": c.get("actions_observed", 0),
        "reference": {k: v for k, v in c.items() if k.startswith("ref_")},
        "nontrivial_by_property": {k[3:]: v for k, v in c.items() if k.startswith("nt_")},
        "classes": eng.stats["classes"],
        "maxima": eng.stats["maxima"],
        "other_counters": {k: v for k, v in c.items() if k.startswith(("clone_", "ctor_", "variant_", "locs_", "chars_"))},
        "violations_by_property_in_this_workload": {k[11:]: v for k, v in c.items() if k.startswith("violations_")},
        "expansion_ticks_max": max(eng.ticks) if eng.ticks else None,
        "expansions_recorded": len(eng.ticks),
        "repo_fingerprint": repo_fingerprint(),
        "toolchain": toolchain(),
    })
    res.assumptions += [
        "reference model (vmodel) is an independent formulation of the documented semantics; matcher A (derivatives) and matcher B (denotational) agreed on every input up to the cross-check length",
        "builtin classes on the oracle side are the std/unicode-xid predicates of " + toolchain(),
        "unicode-width 0.2.2 (as locked by /repo) defines display widths",
    ]
    props = set([prop]) | set(extra_props)
    for v in eng.violations:
        if v.get("property") in props:
            res.violations.append(v)
    # definitions that do not expand/compile
    cf = eng.compile_failures()
    res.extra["definitions_not_compiling"] = len(cf)
    if cf:
        res.extra["not_compiling_samples"] = [{"definition": x["definition"], "what": x["what"][:300]} for x in cf[:5]]
    for m in eng.stuck:
        fl = [x for x in m.get("in_flight", []) if x.get("spec")]
        if prop == "C04":
            # a call that never returns while evaluating a definition with right contexts: the
            # candidate whose context fails is not "treated as if the rule had not matched"
            # (lower-priority rules are never considered). Only where every execution in flight
            # belongs to a context-carrying definition of a context family.
            from vprops import has_ctx
            if fl and all(x.get("family") in ("eoictx", "rctx") and has_ctx(x["spec"]) for x in fl):
                for x in fl:
                    v = dict(x)
                    v.update({"what": "next() did not return while a right context was being evaluated: no progress event within %s CPU-s (%d execution(s) in flight)" % (m.get("cpu_s"), len(fl)),
                              "input_shown": json.dumps("".join(chr(c) for c in x.get("input", []))),
                              "observed": "no return from next() (watchdog)", "expected": "the context fails or passes; lower-priority rules and shorter matches are then considered",
                              "stuck_batch": m.get("batch"), "property": "C04"})
                    res.violations.append(v)
                continue
        if prop != "C09":
            res.inconclusive.append("a batch made no progress: %s" % m.get("cases"))
            continue
        if not fl:
            res.violations.append({"what": "no progress event within the CPU budget (%s CPU-s) while running %s" % (m.get("cpu_s"), m.get("cases")),
                                   "family": "?", "index": -1, "stuck": m})
        for x in fl:
            # one record per execution in flight when the watchdog fired (workers that had finished
            # are not listed); the replay runs exactly this definition and input under the watchdog
            v = dict(x)
            v.update({"what": "next() did not return: no progress event within %s CPU-s (constructor: %s; %d execution(s) in flight)" % (m.get("cpu_s"), x.get("ctor"), len(fl)),
                      "input_shown": json.dumps("".join(chr(c) for c in x.get("input", []))),
                      "observed": "no return from next() (watchdog)", "expected": "every call returns after finitely many steps",
                      "stuck_batch": m.get("batch")})
            res.violations.append(v)
    for m in eng.harness_msgs[:20]:
        res.inconclusive.append("harness: " + m)
    total = c.get("variants", 0) + len(cf)
    if total and len(cf) * 2 > total:
        res.inconclusive.append("%d of %d generated definitions did not compile" % (len(cf), total))
    if not res.violations and res.coverage["distinct_nontrivial"] < 2 and not res.inconclusive:
        res.inconclusive.append("fewer than 2 non-trivial cases observed")
    return cf


# --------------------------------------------------------------------------------------------

def main(root, argv):
    if not argv:
        print(__doc__)
        return 2
    if argv[0] == "setup":
        from vsetup import setup
        return setup(root)
    if argv[0] == "replay":
        from vreplay import replay
        return replay(root, argv[1])
    prop = argv[0]
    tier = os.environ.get("VERIF_TIER", "quick")
    if "--tier" in argv:
        tier = argv[argv.index("--tier") + 1]
    seed = int(os.environ.get("VERIF_SEED", "1"))
    if "--seed" in argv:
        seed = int(argv[argv.index("--seed") + 1])
    res = Result(prop, tier, seed)
    try:
        import vprops
        fn = vprops.CHECKS.get(prop)
        if fn is None:
            print("unknown property " + prop)
            return 2
        fn(root, prop, tier, seed, res)
    except Inconclusive as e:
        res.inconclusive.append(str(e))
    return res.finish(root)
