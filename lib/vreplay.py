"""./check replay <file>: rebuild a one-case batch from a recorded violation and re-judge it."""
import json, os, sys
from vcheck import GenericEngine, Batch, Inconclusive, log, run


def replay(root, path):
    with open(path) as f:
        v = json.load(f)
    prop = v.get("property", "C01")
    import vprops
    if v.get("rangemap_replay"):
        exe = vprops.build_engine(root, "rangemap_mon")
        recs = vprops.run_engine(root, exe, "quick", 1, {"VP_RM_REPLAY": v["rangemap_replay"]})
        bad = [r for r in recs if r.get("t") == "V"]
        if bad:
            print("VIOLATION property=%s replay=%s" % (prop, path))
            print("  " + bad[0]["v"].get("what", ""))
            return 1
        print("no violation of %s on the recorded RangeMap operation sequence with the current /repo" % prop)
        return 0
    if v.get("boundaries") is not None and prop == "C18":
        exe = vprops.build_engine(root, "tablegen_mon")
        spec = "%d:%s" % (1 if v.get("polarity") else 0, ",".join(str(b) for b in v["boundaries"]))
        recs = vprops.run_engine(root, exe, "quick", 1, {"VP_C18_REPLAY": spec})
        bad = [r for r in recs if r.get("t") == "V"]
        if bad:
            print("VIOLATION property=%s replay=%s" % (prop, path))
            print("  " + bad[0]["v"].get("what", ""))
            return 1
        print("no violation of C18 on the recorded predicate with the current /repo")
        return 0
    if prop == "C17" and v.get("source"):
        return replay_source(root, v, path, expect_error=True)
    if prop == "C13" and v.get("builtin"):
        print("replaying a C13 record re-runs the sweep of the check (all scalar values):")
        import subprocess
        return subprocess.call([os.path.join(root, "check"), "C13", "--tier", v.get("tier", "quick")])
    if "variants" not in v and "spec" not in v and v.get("source") and "lexer!" in v.get("source", ""):
        return replay_source(root, v, path, expect_error=False)
    if "variants" not in v and "spec" not in v:
        print("replay: this record has no lexer definition (engine-specific finding); re-run the check instead")
        print(json.dumps({k: v[k] for k in v if k in ("what", "definition", "expected", "observed")}, indent=1))
        return 2
    eng = GenericEngine(root, "replay", "quick", int(v.get("seed", 1)))
    eng.prepare()
    variants = v.get("variants") or [{"label": v.get("variant_label", "base"), "spec": v["spec"]}]
    specfile = os.path.join(eng.work, "replay.spec")
    with open(specfile, "w") as f:
        for var in variants:
            label = var["label"]
            paren = "minimal"
            for p in ("full", "redundant"):
                if p in label or ("fully" in label and p == "full"):
                    paren = p
            desugar = "1" if label.startswith("desugar") else "0"
            f.write("%s\t%s\t%s\t%d\t%s\n" % (label.replace("\t", " "), paren, desugar, 0, var["spec"]))
    name = "replay_b0"
    out = os.path.join(eng.work, "src", "bin", name + ".rs")
    rc, o, e, _ = run([eng.specgen, "replay", "--spec-file", specfile, "--name", name, "--out", out,
                       "--family", v.get("family", "replay"), "--index", str(v.get("index", 0))], env=eng.env)
    if rc != 0:
        print("specgen failed: " + e)
        return 2
    b = Batch(name, v.get("family", "replay"), "replay", [0], {})
    with open(out + ".map.json") as f:
        b.map = json.load(f)
    eng.batches.append(b)
    eng._gen = lambda bb: None
    try:
        eng.build(max_rounds=1)
    except Inconclusive as ex:
        cf = eng.compile_failures()
        if cf:
            print("VIOLATION property=%s replay=%s" % (prop, path))
            print(cf[0]["what"])
            return 1
        print("INCONCLUSIVE " + str(ex))
        return 2
    cf = eng.compile_failures()
    if cf:
        print("VIOLATION property=%s replay=%s" % (prop, path))
        print(cf[0]["what"])
        return 1
    penv = {"VP_THREADS": 1, "VP_CTORS": 1, "VP_CLONES": 1, "VP_MAX_VIOL": 50, "VP_STUCK_CPU_S": 30}
    if v.get("input") is not None:
        penv["VP_ONLY_INPUT"] = ",".join(str(c) for c in v["input"]) or ","
    b.plan_env = penv
    b.built = True
    eng.run_all()
    found = [x for x in eng.violations if x.get("property") == prop]
    other = [x for x in eng.violations if x.get("property") != prop]
    for x in found[:5]:
        print("VIOLATION property=%s replay=%s" % (prop, path))
        print("  what: %s\n  input: %s\n  expected: %s\n  observed: %s" % (x.get("what"), x.get("input_shown"), x.get("expected"), x.get("observed")))
    if other:
        print("(also observed on this case: %s)" % sorted(set(x.get("property") for x in other)))
    eng.cleanup()
    if eng.stuck:
        if prop == "C09" or (prop == "C04" and v.get("stuck_batch")):
            print("VIOLATION property=%s replay=%s" % (prop, path))
            print("  what: next() did not return within %s CPU-s on the recorded definition and input" % eng.stuck[0].get("cpu_s"))
            return 1
        print("INCONCLUSIVE the recorded case made no progress within %s CPU-s (a C09 matter)" % eng.stuck[0].get("cpu_s"))
        return 2
    if found:
        return 1
    if eng.harness_msgs:
        print("INCONCLUSIVE " + "; ".join(eng.harness_msgs[:3]))
        return 2
    print("no violation of %s on the recorded case with the current /repo" % prop)
    return 0


def replay_source(root, v, path, expect_error):
    """Compile a recorded `lexer!` source text alone. expect_error=True (C17): the violation is that it
    compiles; False (C12-style records without a spec): the violation is that it does not."""
    prop = v.get("property")
    eng = GenericEngine(root, "replay", "quick", 1)
    eng.prepare()
    name = "replay_src"
    src = "#![allow(unused)]\nuse vdrive::{St, Tok};\nmod m {\n    use super::*;\n    use lexgen::lexer;\n" + v["source"] + "}\nfn main() {}\n"
    with open(os.path.join(eng.work, "src", "bin", name + ".rs"), "w") as f:
        f.write(src)
    rc, out, err, to = run(["cargo", "check", "--offline", "--bin", name], cwd=eng.work, env=eng.env, timeout=1800)
    rejected = rc != 0
    if expect_error and not rejected:
        print("VIOLATION property=%s replay=%s" % (prop, path))
        print("  the ill-formed definition (%s) is accepted" % v.get("variant_label", v.get("definition")))
        return 1
    if not expect_error and rejected:
        print("VIOLATION property=%s replay=%s" % (prop, path))
        print("  the definition does not expand/compile: " + err[-600:])
        return 1
    print("no violation of %s on the recorded definition with the current /repo" % prop)
    return 0
