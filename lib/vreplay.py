"""./check replay <file>: rebuild a one-case batch from a recorded violation and re-judge it."""
import json, os, sys
from vcheck import GenericEngine, Batch, Inconclusive, log, run


def replay(root, path):
    with open(path) as f:
        v = json.load(f)
    prop = v.get("property", "C01")
    if "variants" not in v and "spec" not in v:
        print("replay: this record has no lexer definition (engine-specific finding); re-run the check instead")
        print(json.dumps({k: v[k] for k in v if k in ("what", "definition", "expected", "observed")}, indent=1))
        return 2
    eng = GenericEngine(root, "replay", "quick", int(v.get("seed", 1)))
    eng.prepare()
    variants = v.get("variants") or [{"label": v.get("variant_label", "base"), "spec": v["spec"]}]
    specfile = os.path.join(eng.work, "replay.spec")
    with open(specfile, "w") as f:
        for var in variants:
            label = var["label"]
            paren = "minimal"
            for p in ("full", "redundant"):
                if p in label or ("fully" in label and p == "full"):
                    paren = p
            desugar = "1" if label.startswith("desugar") else "0"
            f.write("%s\t%s\t%s\t%d\t%s\n" % (label.replace("\t", " "), paren, desugar, 0, var["spec"]))
    name = "replay_b0"
    out = os.path.join(eng.work, "src", "bin", name + ".rs")
    rc, o, e, _ = run([eng.specgen, "replay", "--spec-file", specfile, "--name", name, "--out", out,
                       "--family", v.get("family", "replay"), "--index", str(v.get("index", 0))], env=eng.env)
    if rc != 0:
        print("specgen failed: " + e)
        return 2
    b = Batch(name, v.get("family", "replay"), "replay", [0], {})
    with open(out + ".map.json") as f:
        b.map = json.load(f)
    eng.batches.append(b)
    eng._gen = lambda bb: None
    try:
        eng.build(max_rounds=1)
    except Inconclusive as ex:
        cf = eng.compile_failures()
        if cf:
            print("VIOLATION property=%s replay=%s" % (prop, path))
            print(cf[0]["what"])
            return 1
        print("INCONCLUSIVE " + str(ex))
        return 2
    cf = eng.compile_failures()
    if cf:
        print("VIOLATION property=%s replay=%s" % (prop, path))
        print(cf[0]["what"])
        return 1
    penv = {"VP_THREADS": 1, "VP_CTORS": 1, "VP_CLONES": 1, "VP_MAX_VIOL": 50}
    if v.get("input") is not None:
        penv["VP_ONLY_INPUT"] = ",".join(str(c) for c in v["input"]) or ","
    b.plan_env = penv
    b.built = True
    eng.run_all()
    found = [x for x in eng.violations if x.get("property") == prop]
    other = [x for x in eng.violations if x.get("property") != prop]
    for x in found[:5]:
        print("VIOLATION property=%s replay=%s" % (prop, path))
        print("  what: %s\n  input: %s\n  expected: %s\n  observed: %s" % (x.get("what"), x.get("input_shown"), x.get("expected"), x.get("observed")))
    if other:
        print("(also observed on this case: %s)" % sorted(set(x.get("property") for x in other)))
    eng.cleanup()
    if found:
        return 1
    if eng.harness_msgs:
        print("INCONCLUSIVE " + "; ".join(eng.harness_msgs[:3]))
        return 2
    print("no violation of %s on the recorded case with the current /repo" % prop)
    return 0
