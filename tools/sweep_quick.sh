#!/bin/bash
# run every quick check at several seeds; print one line per (prop, seed)
SEEDS=${SEEDS:-"2 3 4"}
./check setup > /dev/null 2>&1
for s in $SEEDS; do
  for p in C01 C02 C03 C04 C05 C06 C07 C08 C09 C10 C11 C12 C13 C14 C15 C16 C17 C18; do
    t0=$(date +%s)
    VERIF_SEED=$s ./check $p --tier ${TIER:-quick} > /tmp/sweep_${p}_$s.out 2>&1; rc=$?
    t1=$(date +%s)
    echo "seed=$s $p rc=$rc $((t1-t0))s $(grep -c '^VIOLATION' /tmp/sweep_${p}_$s.out) violations $(grep -m1 -E 'INCONCLUSIVE' /tmp/sweep_${p}_$s.out | cut -c1-200)"
    if [ $rc -ne 0 ]; then grep -A6 -m3 "^VIOLATION" /tmp/sweep_${p}_$s.out | cut -c1-400; fi
  done
done
