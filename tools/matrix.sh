#!/bin/bash
# For every seeded change: apply to /repo, run ALL quick checks (4 at a time), record which fire, revert.
# usage: tools/matrix.sh [dirs...]   (default: all of seeded/*)
cd /verif
DIRS=${@:-$(ls -d seeded/*/ )}
for D in $DIRS; do
  D=${D%/}
  [ -f $D/patch.diff ] || continue
  cd /repo
  if [ -n "$(git status --porcelain --untracked-files=no)" ]; then echo "/repo dirty"; exit 2; fi
  git apply /verif/$D/patch.diff || { echo "$D: patch does not apply"; continue; }
  cd /verif
  mkdir -p /tmp/matrix_out
  printf "%s\n" C01 C02 C03 C04 C05 C06 C07 C08 C09 C10 C11 C12 C13 C14 C15 C16 C17 C18 | \
    xargs -P ${MATRIX_PAR:-4} -I{} sh -c './check {} --tier quick > /tmp/matrix_out/{}.out 2>&1; echo $? > /tmp/matrix_out/{}.rc'
  line=""
  for p in C01 C02 C03 C04 C05 C06 C07 C08 C09 C10 C11 C12 C13 C14 C15 C16 C17 C18; do
    rc=$(cat /tmp/matrix_out/$p.rc); n=$(grep -c '^VIOLATION' /tmp/matrix_out/$p.out)
    line="$line $p=$rc/$n"
    if [ "$rc" = "2" ]; then echo "   $(basename $D) $p: $(grep -m1 INCONCLUSIVE /tmp/matrix_out/$p.out | cut -c1-300)" >> /verif/seeded/matrix_inconclusive.txt; fi
  done
  git -C /repo checkout -- .
  echo "$(basename $D):$line" | tee -a /verif/seeded/matrix_raw.txt
done
