#!/bin/bash
# usage: tools/take10.sh <PID>  -- copy a round-10 sub-agent's deliverables into seeded/<PID>_agent${R:-10} and confirm them
P=$1; S=/verif/seeded/${P}_agent${R:-10}
mkdir -p $S && cp /tmp/w${R:-10}_$P/OUT/patch.diff /tmp/w${R:-10}_$P/OUT/seeded_demo.rs /tmp/w${R:-10}_$P/OUT/meta.json $S/ || exit 2
git -C /repo worktree remove --force /tmp/w${R:-10}_$P; rm -rf /tmp/w${R:-10}_$P
python3 /verif/tools/confirm_seeded.py $S
