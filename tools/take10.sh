#!/bin/bash
# usage: tools/take10.sh <PID>  -- copy a round-10 sub-agent's deliverables into seeded/<PID>_agent10 and confirm them
P=$1; S=/verif/seeded/${P}_agent10
mkdir -p $S && cp /tmp/w10_$P/OUT/patch.diff /tmp/w10_$P/OUT/seeded_demo.rs /tmp/w10_$P/OUT/meta.json $S/ || exit 2
git -C /repo worktree remove --force /tmp/w10_$P; rm -rf /tmp/w10_$P
python3 /verif/tools/confirm_seeded.py $S
