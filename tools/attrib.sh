#!/bin/bash
# apply a seeded change, run the given checks, print exit code and the attribution histogram of the workload
D=$1; shift
cd /repo && git apply /verif/$D/patch.diff || exit 2
cd /verif
for p in "$@"; do
  ./check $p --tier quick > /tmp/attrib_$p.out 2>&1; rc=$?
  python3 - "$p" "$rc" <<'PY'
import json,sys
p,rc=sys.argv[1],sys.argv[2]
e=json.load(open('/verif/evidence/%s.json'%p))
print(p,"rc=%s"%rc, e['coverage'].get('violations_by_property_in_this_workload'), "not compiling:", e['coverage'].get('definitions_not_compiling'))
PY
done
git -C /repo checkout -- .
