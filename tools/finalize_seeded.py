#!/usr/bin/env python3
"""Merge agent meta, my confirmation and the check matrix into seeded/<id>/meta.json and write seeded/MATRIX.md."""
import json, os, re, glob
root = "/verif/seeded"
def read_rows(path):
    out = {}
    if os.path.exists(path):
        for l in open(path):
            if ":" not in l:
                continue
            name, rest = l.split(":", 1)
            cells = {}
            for m in re.finditer(r"(C\d\d)=(\d+)/(\d+)", rest):
                cells[m.group(1)] = (int(m.group(2)), int(m.group(3)))
            if cells:
                out[name.strip()] = cells
    return out

# full rows (all 18 quick checks): older run with the machinery as of commit e684543 (before round 5),
# overridden by rows measured with the final machinery; own-check results of the final machinery
matrix_old = read_rows(os.path.join(root, "matrix_raw_before_round5.txt"))
matrix_new = read_rows(os.path.join(root, "matrix_raw.txt"))
own = read_rows(os.path.join(root, "own_raw.txt"))
matrix = dict(matrix_old)
matrix.update(matrix_new)
props = ["C%02d" % i for i in range(1, 19)]
rows = []
for d in sorted(glob.glob(os.path.join(root, "*/"))):
    name = os.path.basename(d.rstrip("/"))
    mp = os.path.join(d, "meta.json")
    if not os.path.exists(mp):
        continue
    meta = json.load(open(mp))
    conf = json.load(open(os.path.join(d, "confirmed.json"))) if os.path.exists(os.path.join(d, "confirmed.json")) else None
    # idempotent: a meta.json that has been finalised before keeps what it had
    if name.endswith("_revert"):
        author = "me: reverse of the `fix:` commit of this defect (see DESIGN.md section 6), hand-adapted where later fixes touched the same lines"
    elif name == "C12_nondet":
        author = "me (hand-written)"
    else:
        author = "fresh sub-agent given only the property record and a scratch worktree of /repo"
    ported = sorted(glob.glob(os.path.join(d, "patch_on_*.diff")))
    out = {
        "property": meta.get("property"),
        "breaks": meta.get("summary") or meta.get("breaks") or meta.get("agent_summary"),
        "needs": meta.get("needs"),
        "author": author,
        "agent_claims": {k: meta[k] for k in meta if k.startswith(("suite_", "demo_", "real_tables", "error_without"))} or meta.get("agent_claims", {}),
        "confirmed_by_me": conf,
        "what_i_ran": [
            "tools/confirm_seeded.py %s   (scratch worktree /tmp/confirm_%s: suite with the change, demo with and without)" % (name, name),
            "tools/try_seeded.sh seeded/%s %s   (git -C /repo apply; ./check %s --tier quick; git -C /repo checkout -- .)" % (name, meta.get("property"), meta.get("property")),
        ],
    }
    if name in matrix:
        out["what_i_ran"].append("tools/matrix.sh seeded/%s   (all 18 quick checks with the change applied)" % name)
        out["quick_checks_with_change"] = {p: {"exit": matrix[name][p][0], "violation_lines": matrix[name][p][1]} for p in props if p in matrix[name]}
        out["caught_by_own_check"] = matrix[name].get(meta.get("property"), (0, 0))[0] == 1
        out["full_row_measured_with"] = "final machinery" if name in matrix_new else "machinery as of /verif commit e684543 (before round 5); the own-property cell was re-measured with the final machinery, see own_quick_check_final"
    if name in own and meta.get("property") in own[name]:
        rc, n = own[name][meta.get("property")]
        out["own_quick_check_final"] = {"exit": rc, "violation_lines": n}
        out["caught_by_own_check"] = rc == 1
    for k in ("summary", "commands_run"):
        if k in meta:
            out.setdefault("agent_" + k, meta[k])
        elif "agent_" + k in meta:
            out.setdefault("agent_" + k, meta["agent_" + k])
    if ported:
        out["ported"] = "patch.diff is the change ported by me onto the current /repo HEAD (later `fix:` commits rewrote lines it touched); %s is the sub-agent's original against the commit in its name. The ported change was re-confirmed (confirmed.json)." % os.path.basename(ported[0])
    json.dump(out, open(mp, "w"), indent=1, ensure_ascii=False)
    rows.append((name, meta.get("property"), matrix.get(name, {})))
with open(os.path.join(root, "MATRIX.md"), "w") as f:
    f.write("# Seeded changes x quick checks\n\nCell = exit code of `./check <col> --tier quick` with the change applied to /repo (1 = VIOLATION reported, 0 = silent, 2 = inconclusive). The column of the change's own property is marked with `*`.\n\n")
    f.write("| change | " + " | ".join(p[1:] for p in props) + " |\n")
    f.write("|---|" + "---|" * len(props) + "\n")
    for name, prop, cells in rows:
        cells = dict(cells)
        if name in own and prop in own[name]:
            cells[prop] = own[name][prop]          # the own-property cell always comes from the final machinery
        if not cells:
            continue
        tag = "" if name in matrix_new else (" †" if name in matrix_old else " ‡")
        f.write("| %s%s | " % (name, tag) + " | ".join(("%d%s" % (cells[p][0], "*" if p == prop else "")) if p in cells else "" for p in props) + " |\n")
    f.write("\nRows without a mark: all 18 cells measured with the final machinery. † = the other 17 cells were measured with the machinery as of /verif commit e684543 (before rounds 5-9 extended several workloads; later extensions can only add firings); the own-property cell (*) was re-measured with the final machinery. ‡ = only the own-property cell was measured.\n")
print("rows:", len(rows), "with matrix:", sum(1 for r in rows if r[2]))
