#!/usr/bin/env python3
"""Merge agent meta, my confirmation and the check matrix into seeded/<id>/meta.json and write seeded/MATRIX.md."""
import json, os, re, glob
root = "/verif/seeded"
matrix = {}
raw = os.path.join(root, "matrix_raw.txt")
if os.path.exists(raw):
    for l in open(raw):
        if ":" not in l:
            continue
        name, rest = l.split(":", 1)
        cells = {}
        for m in re.finditer(r"(C\d\d)=(\d+)/(\d+)", rest):
            cells[m.group(1)] = (int(m.group(2)), int(m.group(3)))
        matrix[name.strip()] = cells
props = ["C%02d" % i for i in range(1, 19)]
rows = []
for d in sorted(glob.glob(os.path.join(root, "*/"))):
    name = os.path.basename(d.rstrip("/"))
    mp = os.path.join(d, "meta.json")
    if not os.path.exists(mp):
        continue
    meta = json.load(open(mp))
    conf = json.load(open(os.path.join(d, "confirmed.json"))) if os.path.exists(os.path.join(d, "confirmed.json")) else None
    # idempotent: a meta.json that has been finalised before keeps what it had
    if name.endswith("_revert"):
        author = "me: reverse of the `fix:` commit of this defect (see DESIGN.md section 6), hand-adapted where later fixes touched the same lines"
    elif name == "C12_nondet":
        author = "me (hand-written)"
    else:
        author = "fresh sub-agent given only the property record and a scratch worktree of /repo"
    ported = sorted(glob.glob(os.path.join(d, "patch_on_*.diff")))
    out = {
        "property": meta.get("property"),
        "breaks": meta.get("summary") or meta.get("breaks") or meta.get("agent_summary"),
        "needs": meta.get("needs"),
        "author": author,
        "agent_claims": {k: meta[k] for k in meta if k.startswith(("suite_", "demo_", "real_tables", "error_without"))} or meta.get("agent_claims", {}),
        "confirmed_by_me": conf,
        "what_i_ran": [
            "tools/confirm_seeded.py %s   (scratch worktree /tmp/confirm_%s: suite with the change, demo with and without)" % (name, name),
            "tools/try_seeded.sh seeded/%s %s   (git -C /repo apply; ./check %s --tier quick; git -C /repo checkout -- .)" % (name, meta.get("property"), meta.get("property")),
        ],
    }
    if name in matrix:
        out["what_i_ran"].append("tools/matrix.sh seeded/%s   (all 18 quick checks with the change applied)" % name)
        out["quick_checks_with_change"] = {p: {"exit": matrix[name][p][0], "violation_lines": matrix[name][p][1]} for p in props if p in matrix[name]}
        out["caught_by_own_check"] = matrix[name].get(meta.get("property"), (0, 0))[0] == 1
    for k in ("summary", "commands_run"):
        if k in meta:
            out.setdefault("agent_" + k, meta[k])
        elif "agent_" + k in meta:
            out.setdefault("agent_" + k, meta["agent_" + k])
    if ported:
        out["ported"] = "patch.diff is the change ported by me onto the current /repo HEAD (later `fix:` commits rewrote lines it touched); %s is the sub-agent's original against the commit in its name. The ported change was re-confirmed (confirmed.json)." % os.path.basename(ported[0])
    json.dump(out, open(mp, "w"), indent=1, ensure_ascii=False)
    rows.append((name, meta.get("property"), matrix.get(name, {})))
with open(os.path.join(root, "MATRIX.md"), "w") as f:
    f.write("# Seeded changes x quick checks\n\nCell = exit code of `./check <col> --tier quick` with the change applied to /repo (1 = VIOLATION reported, 0 = silent, 2 = inconclusive). The column of the change's own property is marked with `*`.\n\n")
    f.write("| change | " + " | ".join(p[1:] for p in props) + " |\n")
    f.write("|---|" + "---|" * len(props) + "\n")
    for name, prop, cells in rows:
        if not cells:
            continue
        f.write("| %s | " % name + " | ".join(("%d%s" % (cells[p][0], "*" if p == prop else "")) if p in cells else "" for p in props) + " |\n")
print("rows:", len(rows), "with matrix:", sum(1 for r in rows if r[2]))
