#!/bin/bash
# usage: tools/try_seeded.sh <seeded dir> <prop> [<prop>...]   -- applies the patch to /repo, runs quick checks, reverts
set -u
D=$1; shift
cd /repo || exit 2
if [ -n "$(git status --porcelain --untracked-files=no)" ]; then echo "/repo is dirty"; exit 2; fi
git apply "$D/patch.diff" || { echo "patch does not apply"; exit 2; }
cd /verif
for p in "$@"; do
  echo "=== $p on $(basename $D)"
  ./check $p --tier ${TIER:-quick} > /tmp/try_$p.out 2>&1; rc=$?
  echo "exit=$rc"; grep -c "^VIOLATION" /tmp/try_$p.out; grep -A6 "^VIOLATION" /tmp/try_$p.out | head -${LINES_SHOWN:-9}; grep "INCONCLUSIVE" /tmp/try_$p.out | head -3
done
git -C /repo checkout -- . 
