#!/bin/bash
# For every seeded change: apply to /repo, run the quick check of its OWN property, record, revert.
# usage: tools/own_check.sh [dirs...]   (default: all of seeded/*)   -> appends to seeded/own_raw.txt
cd /verif
DIRS=${@:-$(ls -d seeded/*/ )}
for D in $DIRS; do
  D=${D%/}
  [ -f $D/patch.diff ] || continue
  P=$(python3 -c "import json,sys; print(json.load(open('$D/meta.json')).get('property'))")
  cd /repo
  if [ -n "$(git status --porcelain --untracked-files=no)" ]; then echo "/repo dirty"; exit 2; fi
  git apply /verif/$D/patch.diff || { echo "$D: patch does not apply"; continue; }
  cd /verif
  ./check $P --tier quick > /tmp/own_$P.out 2>&1; rc=$?
  n=$(grep -c '^VIOLATION' /tmp/own_$P.out)
  w=$(grep -m1 "what:" /tmp/own_$P.out | cut -c1-160)
  git -C /repo checkout -- .
  echo "$(basename $D): $P=$rc/$n $w" | tee -a /verif/seeded/own_raw.txt
done
