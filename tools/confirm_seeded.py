#!/usr/bin/env python3
"""Confirm a seeded change independently, in a scratch worktree of /repo outside /repo and /verif:
   (1) with the change the workspace builds and the existing suite (119 tests) passes,
   (2) the demonstration fails with the change, (3) and passes without it.
   usage: tools/confirm_seeded.py <seeded dir> [...]
   Writes <dir>/confirmed.json. The worktree and its build output are removed afterwards."""
import json, os, shutil, subprocess, sys, re

def sh(cmd, cwd, timeout=3600):
    p = subprocess.run(cmd, cwd=cwd, shell=True, capture_output=True, text=True, timeout=timeout)
    return p.returncode, p.stdout + p.stderr

def count_tests(out):
    passed = failed = 0
    for m in re.finditer(r"test result: \w+\. (\d+) passed; (\d+) failed", out):
        passed += int(m.group(1)); failed += int(m.group(2))
    return passed, failed

def confirm(d):
    d = os.path.abspath(d)
    name = os.path.basename(d)
    wt = "/tmp/confirm_" + name
    sh("git -C /repo worktree remove --force %s" % wt, "/")
    rc, out = sh("git -C /repo worktree add --detach %s HEAD" % wt, "/")
    res = {"worktree_base": sh("git -C /repo rev-parse HEAD", "/")[1].strip()}
    try:
        meta = json.load(open(os.path.join(d, "meta.json")))
        prop = meta.get("property")
        inverted = "demo_compiles_with_change" in meta          # C17 style
        demo_src = os.path.join(d, "seeded_demo.rs")
        is_c18 = prop == "C18"
        rc, out = sh("git apply %s/patch.diff" % d, wt)
        res["patch_applies"] = rc == 0
        if rc != 0:
            res["error"] = out[-500:]
            return res
        # (1) suite with the change (demo absent)
        rc, out = sh("cargo test --workspace --no-fail-fast --offline 2>&1", wt)
        p, f = count_tests(out)
        res["suite_with_change"] = {"passed": p, "failed": f, "rc": rc}
        # install demo
        if is_c18:
            main = os.path.join(wt, "crates/char_range_gen/src/main.rs")
            with open(main, "a") as fh:
                fh.write("\n" + open(demo_src).read() + "\n")
            demo_cmd = "cargo test --offline -p char_range_gen 2>&1"
        else:
            shutil.copy(demo_src, os.path.join(wt, "crates/lexgen/tests/seeded_demo.rs"))
            demo_cmd = "timeout 600 cargo test --offline -p lexgen --test seeded_demo 2>&1"
        rc, out = sh(demo_cmd, wt)
        p, f = count_tests(out)
        res["demo_with_change"] = {"rc": rc, "passed": p, "failed": f, "tail": out[-400:]}
        # (3) without the change
        sh("git apply -R %s/patch.diff" % d, wt)
        rc2, out2 = sh(demo_cmd, wt)
        p2, f2 = count_tests(out2)
        res["demo_without_change"] = {"rc": rc2, "passed": p2, "failed": f2, "tail": out2[-400:]}
        if inverted:
            res["confirmed"] = (res["suite_with_change"]["failed"] == 0 and res["suite_with_change"]["passed"] == 119
                                and rc == 0 and rc2 != 0)
        else:
            res["confirmed"] = (res["suite_with_change"]["failed"] == 0 and res["suite_with_change"]["passed"] == 119
                                and rc != 0 and rc2 == 0)
        return res
    finally:
        sh("git -C /repo worktree remove --force %s" % wt, "/")
        sh("git -C /repo worktree prune", "/")
        shutil.rmtree(wt, ignore_errors=True)

if __name__ == "__main__":
    for d in sys.argv[1:]:
        r = confirm(d)
        with open(os.path.join(d, "confirmed.json"), "w") as f:
            json.dump(r, f, indent=1)
        print(os.path.basename(d.rstrip("/")), "confirmed=%s" % r.get("confirmed"), r.get("suite_with_change"), "demo with:", r.get("demo_with_change", {}).get("rc"), "without:", r.get("demo_without_change", {}).get("rc"))
