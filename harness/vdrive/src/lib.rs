//! Generic driver used by generated batch crates: glue between a `lexer!`-generated type and the
//! monitors (history recording, comparison with the reference model, model-free invariants,
//! constructor and clone schedules, budgets, evidence counters).

pub mod compare;
pub mod driver;

pub use vmodel::reflex::{Ev, Item, Loc};

use std::cell::Cell;

#[derive(Clone, Debug, PartialEq)]
pub struct Tok(pub u32, pub u32);

/// User state carried by every generated lexer: the action log.
#[derive(Clone, Debug)]
pub struct St {
    pub log: Vec<Ev>,
    pub counter: u32,
    pub action_budget: u32,
    pub actions: u32,
}

thread_local! {
    static USE_TEXT: Cell<bool> = const { Cell::new(true) };
    static ACTION_BUDGET: Cell<u32> = const { Cell::new(u32::MAX) };
}

pub fn use_text() -> bool {
    USE_TEXT.with(|t| t.get())
}
pub fn set_use_text(b: bool) {
    USE_TEXT.with(|t| t.set(b))
}
pub fn set_action_budget(b: u32) {
    ACTION_BUDGET.with(|t| t.set(b))
}

impl Default for St {
    fn default() -> St {
        St {
            log: vec![],
            counter: 0,
            action_budget: ACTION_BUDGET.with(|t| t.get()),
            actions: 0,
        }
    }
}

pub struct Seen {
    pub pk: Option<char>,
    pub len: usize,
    pub cnt: u32,
}

pub fn cloc(l: lexgen_util::Loc) -> Loc {
    Loc {
        line: l.line,
        col: l.col,
        byte: l.byte_idx,
    }
}

pub const ACTION_BUDGET_MSG: &str = "verif: action budget exceeded";

/// Called (through `ev!`) at the start of every logging semantic action.
pub fn record(
    st: &mut St,
    id: u32,
    ms: lexgen_util::Loc,
    me: lexgen_util::Loc,
    pk: Option<char>,
    tx: Option<String>,
) -> Seen {
    st.actions += 1;
    if st.actions > st.action_budget {
        panic!("{}", ACTION_BUDGET_MSG);
    }
    let cnt = st.counter;
    st.counter += 1;
    st.log.push(Ev {
        rule: id,
        ms: cloc(ms),
        me: cloc(me),
        pk,
        tx,
        cnt,
        post: None,
        call: 0,
    });
    Seen {
        pk,
        len: me.byte_idx.wrapping_sub(ms.byte_idx),
        cnt,
    }
}

pub fn record_post(st: &mut St, ms: lexgen_util::Loc, me: lexgen_util::Loc) {
    if let Some(e) = st.log.last_mut() {
        e.post = Some((cloc(ms), cloc(me)));
    }
}

#[macro_export]
macro_rules! ev {
    ($l:ident, $id:expr) => {{
        let (ms, me) = $l.match_loc();
        let pk = $l.peek();
        let tx = if $crate::use_text() {
            Some($l.match_().to_owned())
        } else {
            None
        };
        $crate::record($l.state(), $id, ms, me, pk, tx)
    }};
}

#[macro_export]
macro_rules! post {
    ($l:ident) => {{
        let (ms, me) = $l.match_loc();
        $crate::record_post($l.state(), ms, me);
    }};
}

pub trait ErrPayload {
    fn payload(&self) -> u32;
}
impl ErrPayload for u32 {
    fn payload(&self) -> u32 {
        *self
    }
}
impl ErrPayload for std::convert::Infallible {
    fn payload(&self) -> u32 {
        match *self {}
    }
}

pub fn conv<E: ErrPayload>(
    r: Result<(lexgen_util::Loc, Tok, lexgen_util::Loc), lexgen_util::LexerError<E>>,
) -> Item {
    match r {
        Ok((s, t, e)) => Item::Tok {
            start: cloc(s),
            rule: t.0,
            val: t.1,
            end: cloc(e),
        },
        Err(err) => match err.kind {
            lexgen_util::LexerErrorKind::InvalidToken => Item::ErrInvalid {
                loc: cloc(err.location),
            },
            lexgen_util::LexerErrorKind::Custom(e) => Item::ErrCustom {
                loc: cloc(err.location),
                payload: e.payload(),
            },
        },
    }
}

/// Object-safe view of a generated lexer.
pub trait DynLex<'a> {
    fn next_item(&mut self) -> Option<Item>;
    fn st(&mut self) -> &mut St;
    fn dup(&self) -> Box<dyn DynLex<'a> + 'a>;
}

/// Cloneable character iterator that counts every `next()` (shared among clones).
#[derive(Clone)]
pub struct CountIter<'a> {
    pub inner: std::str::Chars<'a>,
    pub count: &'a Cell<u64>,
    pub limit: u64,
}

pub const READ_BUDGET_MSG: &str = "verif: read budget exceeded";

impl<'a> Iterator for CountIter<'a> {
    type Item = char;
    fn next(&mut self) -> Option<char> {
        let n = self.count.get() + 1;
        self.count.set(n);
        if n > self.limit {
            panic!("{}", READ_BUDGET_MSG);
        }
        self.inner.next()
    }
}

pub type BoxLex<'a> = Box<dyn DynLex<'a> + 'a>;

#[derive(Clone, Copy)]
pub struct Factory {
    pub new: for<'a> fn(&'a str) -> BoxLex<'a>,
    pub new_with_state: for<'a> fn(&'a str, St) -> BoxLex<'a>,
    pub from_chars: for<'a> fn(&'a str) -> BoxLex<'a>,
    pub from_chars_st: for<'a> fn(&'a str, St) -> BoxLex<'a>,
    pub from_count: for<'a> fn(CountIter<'a>) -> BoxLex<'a>,
    pub from_count_st: for<'a> fn(CountIter<'a>, St) -> BoxLex<'a>,
}

/// To be invoked inside the module that contains the `lexer!` invocation (the tuple field of the
/// generated struct is private to that module).
#[macro_export]
macro_rules! glue {
    ($L:ident) => {
        impl<'s: 'a, 'a, I: Iterator<Item = char> + Clone + 'a> $crate::DynLex<'a> for $L<'s, I> {
            fn next_item(&mut self) -> Option<$crate::Item> {
                Iterator::next(self).map($crate::conv)
            }
            fn st(&mut self) -> &mut $crate::St {
                self.0.state()
            }
            fn dup(&self) -> Box<dyn $crate::DynLex<'a> + 'a> {
                Box::new(self.clone())
            }
        }
        fn __new<'a>(s: &'a str) -> $crate::BoxLex<'a> {
            Box::new($L::new(s))
        }
        fn __new_with_state<'a>(s: &'a str, st: $crate::St) -> $crate::BoxLex<'a> {
            Box::new($L::new_with_state(s, st))
        }
        fn __from_chars<'a>(s: &'a str) -> $crate::BoxLex<'a> {
            Box::new($L::new_from_iter(s.chars()))
        }
        fn __from_chars_st<'a>(s: &'a str, st: $crate::St) -> $crate::BoxLex<'a> {
            Box::new($L::new_from_iter_with_state(s.chars(), st))
        }
        fn __from_count<'a>(it: $crate::CountIter<'a>) -> $crate::BoxLex<'a> {
            Box::new($L::new_from_iter(it))
        }
        fn __from_count_st<'a>(it: $crate::CountIter<'a>, st: $crate::St) -> $crate::BoxLex<'a> {
            Box::new($L::new_from_iter_with_state(it, st))
        }
        pub fn factory() -> $crate::Factory {
            $crate::Factory {
                new: __new,
                new_with_state: __new_with_state,
                from_chars: __from_chars,
                from_chars_st: __from_chars_st,
                from_count: __from_count,
                from_count_st: __from_count_st,
            }
        }
    };
}

/// One entry of a generated batch: the specs (s-expressions) of its variants and their factories.
pub struct CaseEntry {
    pub family: &'static str,
    pub index: usize,
    /// (label, spec text, factory); None factory = variant was skipped (failed to compile)
    pub variants: Vec<(&'static str, &'static str, Option<Factory>)>,
}
