//! Batch driver: runs every case of a generated batch on generated inputs, under all monitors,
//! and prints JSON lines (`V` violation, `H` harness problem, `S` statistics).

use crate::compare::{exp_elements, first_divergence, model_free, obs_elements, El, Obs, Oracle, RuleMatch, SpecInfo};
use crate::{
    set_action_budget, set_use_text, BoxLex, CaseEntry, CountIter, Factory, St, ACTION_BUDGET_MSG, READ_BUDGET_MSG,
};
use std::cell::{Cell, RefCell};
use std::collections::{BTreeMap, HashSet};
use std::panic::{catch_unwind, AssertUnwindSafe};
use std::sync::atomic::{AtomicU64, AtomicUsize, Ordering};
use std::sync::Mutex;
use vmodel::inputs;
use vmodel::json::J;
use vmodel::print::summarize;
use vmodel::reflex::{compile, loc_table, Compiled, History, Item, RefRun};
use vmodel::rng::{hash64, Rng};
use vmodel::spec::{Action, Entry, Spec};
use vmodel::wf::contains_eoi;

thread_local! {
    static PANIC_MSG: RefCell<Option<String>> = const { RefCell::new(None) };
}

#[derive(Clone, Debug)]
pub struct Plan {
    pub seed: u64,
    pub exh_max: usize,
    pub exh_len: usize,
    pub random: usize,
    pub random_len: (usize, usize),
    pub guided: usize,
    pub guided_len: (usize, usize),
    pub stress_n: usize,
    /// also feed scalar values no definition mentions: the ends of the code space, both sides of the
    /// surrogate gap, plane boundaries (C09: "any sequence of Unicode scalar values")
    pub hostile: bool,
    pub ctors: bool,
    pub clones: usize, // 0 none, N: check clone points on every N-th input
    pub alpha_cap: usize,
    pub cross_len: usize,
    pub threads: usize,
    pub max_viol_per_case: usize,
}

fn env_usize(k: &str, d: usize) -> usize {
    std::env::var(k).ok().and_then(|s| s.parse().ok()).unwrap_or(d)
}

impl Plan {
    pub fn from_env() -> Plan {
        Plan {
            seed: std::env::var("VERIF_SEED").ok().and_then(|s| s.parse().ok()).unwrap_or(1),
            exh_max: env_usize("VP_EXH_MAX", 1500),
            exh_len: env_usize("VP_EXH_LEN", 8),
            random: env_usize("VP_RANDOM", 40),
            random_len: (env_usize("VP_RANDOM_LO", 8), env_usize("VP_RANDOM_HI", 40)),
            guided: env_usize("VP_GUIDED", 40),
            guided_len: (env_usize("VP_GUIDED_LO", 4), env_usize("VP_GUIDED_HI", 30)),
            stress_n: env_usize("VP_STRESS_N", 0),
            hostile: env_usize("VP_HOSTILE", 0) != 0,
            ctors: env_usize("VP_CTORS", 0) != 0,
            clones: env_usize("VP_CLONES", 0),
            alpha_cap: env_usize("VP_ALPHA_CAP", 5),
            cross_len: env_usize("VP_CROSS", 6),
            threads: env_usize("VP_THREADS", 4),
            max_viol_per_case: env_usize("VP_MAX_VIOL", 2),
        }
    }
}

#[derive(Default)]
pub struct Stats {
    pub counters: BTreeMap<String, u64>,
    pub classes: BTreeMap<String, BTreeMap<String, u64>>,
    pub samples: BTreeMap<String, Vec<J>>,
    pub maxima: BTreeMap<String, u64>,
}

impl Stats {
    fn inc(&mut self, k: &str, n: u64) {
        *self.counters.entry(k.to_string()).or_insert(0) += n;
    }
    fn max(&mut self, k: &str, n: u64) {
        let e = self.maxima.entry(k.to_string()).or_insert(0);
        if n > *e {
            *e = n;
        }
    }
    fn class(&mut self, group: &str, key: &str) {
        *self
            .classes
            .entry(group.to_string())
            .or_default()
            .entry(key.to_string())
            .or_insert(0) += 1;
    }
    fn sample(&mut self, k: &str, mk: impl FnOnce() -> J) {
        let v = self.samples.entry(k.to_string()).or_default();
        if v.len() < 2 {
            v.push(mk());
        }
    }
    fn merge(&mut self, o: Stats) {
        for (k, v) in o.counters {
            *self.counters.entry(k).or_insert(0) += v;
        }
        for (g, m) in o.classes {
            let e = self.classes.entry(g).or_default();
            for (k, v) in m {
                *e.entry(k).or_insert(0) += v;
            }
        }
        for (k, v) in o.samples {
            let e = self.samples.entry(k).or_default();
            for x in v {
                if e.len() < 3 {
                    e.push(x);
                }
            }
        }
        for (k, v) in o.maxima {
            let e = self.maxima.entry(k).or_insert(0);
            if v > *e {
                *e = v;
            }
        }
    }
    fn to_json(&self) -> J {
        let mut c = J::obj();
        for (k, v) in &self.counters {
            c.set(k, J::Int(*v as i64));
        }
        let mut cl = J::obj();
        for (g, m) in &self.classes {
            let mut o = J::obj();
            for (k, v) in m {
                o.set(k, J::Int(*v as i64));
            }
            cl.set(g, o);
        }
        let mut s = J::obj();
        for (k, v) in &self.samples {
            s.set(k, J::Arr(v.clone()));
        }
        let mut mx = J::obj();
        for (k, v) in &self.maxima {
            mx.set(k, J::Int(*v as i64));
        }
        J::obj().with("counters", c).with("classes", cl).with("samples", s).with("maxima", mx)
    }
}

fn spec_info(spec: &Spec, n_chars: usize, n_bytes: usize) -> SpecInfo {
    let mut rule_set = vec![];
    let mut set_has_ctx = vec![];
    let mut set_has_eoi = vec![];
    for (si, set) in spec.sets.iter().enumerate() {
        let mut hc = false;
        let mut he = false;
        for (ei, e) in set.entries.iter().enumerate() {
            if let Entry::Rule(r) = e {
                let env = spec.bindings_at(si, ei);
                while rule_set.len() <= r.id as usize {
                    rule_set.push(usize::MAX);
                }
                rule_set[r.id as usize] = si;
                if r.ctx.is_some() {
                    hc = true;
                }
                if contains_eoi(&r.re, &env) || r.ctx.as_ref().map(|c| contains_eoi(c, &env)).unwrap_or(false) {
                    he = true;
                }
            }
        }
        set_has_ctx.push(hc);
        set_has_eoi.push(he);
    }
    SpecInfo {
        rule_set,
        set_has_ctx,
        set_has_eoi,
        n_chars,
        n_bytes,
    }
}

pub fn panic_message(p: Box<dyn std::any::Any + Send>) -> String {
    if let Some(s) = p.downcast_ref::<&str>() {
        s.to_string()
    } else if let Some(s) = p.downcast_ref::<String>() {
        s.clone()
    } else {
        "<non-string panic payload>".to_string()
    }
}

/// Per-call grouping of a run: (events of the call, item or None).
pub type Calls = Vec<(Vec<crate::Ev>, Option<Item>)>;

pub struct RunOut {
    pub obs: Obs,
    pub calls: Calls,
}

fn drain_log(lx: &mut BoxLex, call: u32, into: &mut Vec<crate::Ev>) -> Vec<crate::Ev> {
    let st: &mut St = lx.st();
    let mut v = vec![];
    for mut e in st.log.drain(..) {
        e.call = call;
        v.push(e.clone());
        into.push(e);
    }
    v
}

/// Drive a lexer until None (plus three extra calls), or a panic, or too many items.
pub fn drive(lx: &mut BoxLex, n_chars: usize, start_call: u32) -> RunOut {
    let mut obs = Obs::default();
    let mut calls: Calls = vec![];
    let mut call = start_call;
    loop {
        let r = catch_unwind(AssertUnwindSafe(|| lx.next_item()));
        match r {
            Err(p) => {
                let m = panic_message(p);
                let evs = drain_log(lx, call, &mut obs.evs);
                calls.push((evs, None));
                obs.panic = Some(m);
                break;
            }
            Ok(None) => {
                let evs = drain_log(lx, call, &mut obs.evs);
                calls.push((evs, None));
                obs.ended = true;
                break;
            }
            Ok(Some(it)) => {
                let evs = drain_log(lx, call, &mut obs.evs);
                obs.items.push(it.clone());
                obs.item_ev_end.push(obs.evs.len());
                calls.push((evs, Some(it)));
                if obs.items.len() > n_chars + 2 {
                    obs.overflow_items = true;
                    break;
                }
            }
        }
        call += 1;
    }
    if obs.ended {
        for _ in 0..3 {
            let r = catch_unwind(AssertUnwindSafe(|| lx.next_item()));
            match r {
                Ok(None) => {}
                Ok(Some(_)) => obs.after_none_some += 1,
                Err(p) => {
                    obs.panic = Some(format!("after None: {}", panic_message(p)));
                    break;
                }
            }
        }
    }
    obs.actions = lx.st().actions;
    RunOut { obs, calls }
}

fn strip_text(calls: &Calls) -> Calls {
    calls
        .iter()
        .map(|(evs, it)| {
            (
                evs.iter()
                    .map(|e| {
                        let mut e = e.clone();
                        e.tx = None;
                        e.call = 0;
                        e
                    })
                    .collect(),
                it.clone(),
            )
        })
        .collect()
}

fn norm_calls(calls: &Calls) -> Calls {
    calls
        .iter()
        .map(|(evs, it)| {
            (
                evs.iter()
                    .map(|e| {
                        let mut e = e.clone();
                        e.call = 0;
                        e
                    })
                    .collect(),
                it.clone(),
            )
        })
        .collect()
}

fn show_calls(calls: &Calls) -> String {
    let mut parts = vec![];
    for (evs, it) in calls {
        let mut s = String::new();
        for e in evs {
            s.push_str(&El::Ev(e.clone()).show());
            s.push(' ');
        }
        s.push_str(&match it {
            Some(i) => El::It(i.clone()).show(),
            None => "None".to_string(),
        });
        parts.push(s);
    }
    parts.join(" ; ")
}

fn fresh_state(n_chars: usize) -> St {
    St {
        log: vec![],
        counter: 0,
        action_budget: (n_chars + 2) as u32,
        actions: 0,
    }
}

fn read_limit(n: usize, n_rules: usize) -> u64 {
    let n = n as u64 + 2;
    let r = n_rules as u64 + 1;
    if n <= 66 {
        8 * r * n * n * n + 4096
    } else {
        (64 * r).saturating_mul(n).saturating_mul(n)
    }
}

pub struct Violation {
    pub prop: String,
    pub what: String,
    pub detail: J,
}

struct CaseCtx<'a> {
    entry: &'a CaseEntry,
    plan: &'a Plan,
    batch: &'a str,
}

fn input_json(cs: &[char]) -> J {
    J::Arr(cs.iter().map(|c| J::Int(*c as i64)).collect())
}

fn show_input(cs: &[char]) -> String {
    let s: String = cs.iter().collect();
    format!("{:?}", s)
}

fn viol(
    ctx: &CaseCtx,
    vi: usize,
    prop: &str,
    what: String,
    input: &[char],
    how: &str,
    expected: String,
    observed: String,
) -> Violation {
    let (label, spec_text, _) = &ctx.entry.variants[vi];
    Violation {
        prop: prop.to_string(),
        what: what.clone(),
        detail: J::obj()
            .with("property", J::s(prop))
            .with("family", J::s(ctx.entry.family))
            .with("index", J::i(ctx.entry.index))
            .with("batch", J::s(ctx.batch))
            .with("variant", J::i(vi))
            .with("variant_label", J::s(label))
            .with("spec", J::s(spec_text))
            .with("input", input_json(input))
            .with("input_shown", J::s(&show_input(input)))
            .with("how", J::s(how))
            .with("what", J::s(&what))
            .with("expected", J::s(&expected))
            .with("observed", J::s(&observed)),
    }
}

fn all_rules_log(spec: &Spec) -> bool {
    spec.all_rules().all(|(_, r)| r.act.logs())
}

/// The reference model answering the classifier's questions about observed behaviour.
struct RefOracle<'a> {
    c: &'a mut Compiled,
    text: bool,
    input: &'a [char],
    byte2pos: std::collections::HashMap<usize, usize>,
}

impl<'a> Oracle for RefOracle<'a> {
    fn rule_match(&mut self, rule: u32, start: usize, end: usize) -> RuleMatch {
        for set in self.c.sets.iter() {
            for r in set.rules.iter() {
                if r.id == rule {
                    if start > self.input.len() || end > self.input.len() || end < start {
                        return RuleMatch::default();
                    }
                    let ends = vmodel::matcher::ends(&r.re, &r.env, self.input, start, false);
                    let ctx_ok = match &r.ctx {
                        None => true,
                        Some(cx) => vmodel::matcher::ctx_ok(cx, &r.env, self.input, end),
                    };
                    return RuleMatch {
                        regex_plain: ends.contains(&(end, false)),
                        regex_eoi: ends.contains(&(end, true)),
                        has_ctx: r.ctx.is_some(),
                        ctx_ok,
                    };
                }
            }
        }
        RuleMatch::default()
    }
    fn select(&mut self, set: usize, pos: usize) -> Option<(u32, usize)> {
        if set >= self.c.sets.len() || pos > self.input.len() {
            return None;
        }
        let sc = self.c.scan(set, self.input, pos, false);
        sc.best.map(|(len, _via, ri)| (self.c.sets[set].rules[ri].id, pos + len))
    }
    fn pos_of_byte(&self, byte: usize) -> Option<usize> {
        self.byte2pos.get(&byte).copied()
    }
    fn select_excluding(&mut self, set: usize, pos: usize, rule: u32, end: usize) -> Option<(u32, usize)> {
        if set >= self.c.sets.len() || pos > self.input.len() {
            return None;
        }
        let ri = self.c.sets[set].rules.iter().position(|r| r.id == rule)?;
        let b = self.c.best_by_matcher_b_excluding(set, self.input, pos, Some((ri, end)));
        b.map(|(len, _via, i)| (self.c.sets[set].rules[i].id, pos + len))
    }
    fn explains(&mut self, set: usize, pos: usize, ms: usize, cnt: u32, obs_rest: &[El], need_evidence: bool) -> bool {
        if set >= self.c.sets.len() || pos > self.input.len() || ms > pos {
            return false;
        }
        let cfg = vmodel::reflex::Config {
            pos,
            set,
            match_start: ms,
            done: false,
            counter: cnt,
            calls: 0,
        };
        let h = {
            let mut rr = RefRun::new(&mut *self.c, self.input, self.text, 0, false);
            rr.run_from(cfg, self.input.len() + 4)
        };
        if need_evidence {
            // the hypothetical run must begin with a match of a rule of that rule set
            let first_is_match = match h.meta.first() {
                Some(m) => m.set == set && (h.items.is_empty() || h.item_ev_end[0] > 0),
                None => false,
            };
            if !first_is_match {
                return false;
            }
        }
        let exp = exp_elements(&h);
        exp.len() == obs_rest.len() && exp.iter().zip(obs_rest.iter()).all(|(e, o)| e.el == *o)
    }
    fn n_sets(&self) -> usize {
        self.c.sets.len()
    }
}

/// Reference history with resolution of legitimate ambiguity: returns the history that agrees
/// with the observation if some choice vector does, otherwise the one diverging latest.
fn reference_for(
    c: &mut Compiled,
    input: &[char],
    text: bool,
    cross: bool,
    obs_els: &[El],
    info: &SpecInfo,
    harness: &mut Vec<String>,
) -> (History, Option<crate::compare::Divergence>, usize) {
    let max_items = input.len() + 4;
    let mut best: Option<(History, Option<crate::compare::Divergence>)> = None;
    let mut n_amb = 0usize;
    let mut choice: u64 = 0;
    let mut tried = 0;
    loop {
        let mut rr = RefRun::new(c, input, text, choice, cross && tried == 0);
        let h = rr.run(max_items);
        if tried == 0 {
            n_amb = rr.n_ambiguous;
            harness.extend(rr.cross_check_failures.drain(..));
        }
        let exp = exp_elements(&h);
        drop(rr);
        let d = {
            let mut byte2pos = std::collections::HashMap::new();
            let mut b = 0usize;
            for (i, ch) in input.iter().enumerate() {
                byte2pos.insert(b, i);
                b += ch.len_utf8();
            }
            byte2pos.insert(b, input.len());
            let mut orc = RefOracle { c: &mut *c, text, input, byte2pos };
            first_divergence(obs_els, &exp, info, &mut orc)
        };
        let better = match (&best, &d) {
            (None, _) => true,
            (Some((_, Some(bd))), Some(nd)) => nd.index > bd.index,
            (Some((_, Some(_))), None) => true,
            (Some((_, None)), _) => false,
        };
        if better {
            best = Some((h, d));
        }
        tried += 1;
        if best.as_ref().unwrap().1.is_none() {
            break;
        }
        let limit = 1u64 << n_amb.min(4);
        choice += 1;
        if choice >= limit {
            break;
        }
    }
    let (h, d) = best.unwrap();
    (h, d, n_amb)
}

fn run_case(ctx: &CaseCtx, stats: &mut Stats, out: &mut Vec<Violation>, harness: &mut Vec<String>) {
    let plan = ctx.plan;
    let entry = ctx.entry;
    // parse specs
    let mut specs: Vec<Spec> = vec![];
    for (_, text, _) in &entry.variants {
        match Spec::from_text(text) {
            Ok(s) => specs.push(s),
            Err(e) => {
                harness.push(format!("cannot parse spec of {}#{}: {}", entry.family, entry.index, e));
                return;
            }
        }
    }
    let mut compiled: Vec<Compiled> = specs.iter().map(compile).collect();
    let lead = &specs[0];
    let n_rules = lead.n_rules();
    let mut rng = Rng::derive(plan.seed, &[hash64(entry.family.as_bytes()), entry.index as u64, 77]);
    // inputs
    let mut inputs_v: Vec<Vec<char>> = vec![];
    let (alpha, foreign) = inputs::alphabet(lead, plan.alpha_cap, &mut rng);
    if entry.family == "class" {
        // probe every boundary of the class expression
        let (si, ei, rule) = {
            let mut found = None;
            for (si, set) in lead.sets.iter().enumerate() {
                for (ei, e) in set.entries.iter().enumerate() {
                    if let Entry::Rule(r) = e {
                        found = Some((si, ei, r.clone()));
                    }
                }
            }
            found.unwrap()
        };
        let env = lead.bindings_at(si, ei);
        let cls = match (&rule.ctx, &rule.re) {
            (Some(c), _) => c.clone(),
            (None, vmodel::spec::Re::Cat(a, _)) if matches!(rule.act, Action::Simple(1)) => (**a).clone(),
            (None, r) => r.clone(),
        };
        let probes = inputs::class_probe_chars(&cls, &env);
        let probes: Vec<char> = if probes.len() > 600 {
            let mut p = probes;
            rng.shuffle(&mut p);
            p.truncate(600);
            p
        } else {
            probes
        };
        for c in probes {
            inputs_v.push(vec![c]);
            inputs_v.push(vec![c, '!']);
            inputs_v.push(vec!['?', c]);
            inputs_v.push(vec![c, c, '!']);
        }
        inputs_v.push(vec![]);
    } else {
        inputs_v.extend(inputs::exhaustive(&alpha, plan.exh_max, plan.exh_len));
        inputs_v.extend(inputs::random_strings(&alpha, &mut rng, plan.random, plan.random_len));
        inputs_v.extend(inputs::guided(&mut compiled[0], &alpha, foreign, &mut rng, plan.guided, plan.guided_len));
        if plan.stress_n > 0 {
            for w in inputs::stress(&alpha, foreign, &mut rng, plan.stress_n) {
                let n = inputs::bounded_prefix_len(&mut compiled[0], &w, 3_000_000);
                stats.class("stress_input_len_log2", &format!("{}", (n as f64).log2().floor()));
                inputs_v.push(w[..n].to_vec());
            }
        }
    }
    if plan.hostile {
        // none of these lies in a range whose built-in table is known to be stale (C13's known finding)
        const HOSTILE: [char; 10] = ['\0', '\u{7F}', '\u{80}', '\u{D7FF}', '\u{E000}', '\u{FFFF}', '\u{10000}', '\u{EFFFF}', '\u{F0000}', '\u{10FFFF}'];
        let firsts: Vec<char> = alpha.iter().copied().take(3).collect();
        for h in HOSTILE {
            inputs_v.push(vec![h]);
            inputs_v.push(vec![h, h]);
            for a in &firsts {
                inputs_v.push(vec![*a, h]);
                inputs_v.push(vec![*a, h, *a]);
                inputs_v.push(vec![h, *a]);
                for b in &firsts {
                    inputs_v.push(vec![*a, *b, h, *a]);
                }
            }
        }
        stats.inc("hostile_inputs", 1);
    }
    if let Ok(only) = std::env::var("VP_ONLY_INPUT") {
        // replay mode: exactly one input, given as comma-separated code points
        let w: Vec<char> = only
            .split(',')
            .filter(|x| !x.trim().is_empty())
            .filter_map(|x| x.trim().parse::<u32>().ok().and_then(char::from_u32))
            .collect();
        inputs_v = vec![w];
    }
    // dedupe
    let mut seen: HashSet<Vec<char>> = HashSet::new();
    inputs_v.retain(|w| seen.insert(w.clone()));
    stats.inc("cases", 1);
    stats.inc("variants", entry.variants.len() as u64);
    stats.inc("inputs", inputs_v.len() as u64);
    stats.class("alphabet_size", &alpha.len().to_string());
    stats.class("rule_sets", &lead.sets.len().to_string());
    let mut viol_count: BTreeMap<String, usize> = BTreeMap::new();
    let mut push_v = |out: &mut Vec<Violation>, stats: &mut Stats, v: Violation| {
        stats.inc(&format!("violations_{}", v.prop), 1);
        let c = viol_count.entry(v.prop.clone()).or_insert(0);
        *c += 1;
        if *c <= plan.max_viol_per_case {
            out.push(v);
        }
    };
    // C16: discriminating power of the minimal printing (single-rule definitions only)
    if entry.variants[0].0.starts_with("print: minimal") && !lead.named && lead.n_rules() == 1 {
        c16_discrimination(lead, &inputs_v, stats, harness, entry);
    }
    let logs_all: Vec<bool> = specs.iter().map(all_rules_log).collect();
    let mut shape_done = false;

    for (ii, input) in inputs_v.iter().enumerate() {
        HEARTBEAT.fetch_add(1, Ordering::Relaxed);
        let s: String = input.iter().collect();
        let n = input.len();
        let locs = loc_table(input);
        let info = spec_info(lead, n, s.len());
        let mut primary_calls: Vec<Option<Calls>> = vec![None; entry.variants.len()];
        for (vi, (_label, _text, fac)) in entry.variants.iter().enumerate() {
            let fac: &Factory = match fac {
                Some(f) => f,
                None => continue,
            };
            // ---- primary run: new_with_state over &str, with match_() text
            // match_() text is recorded for inputs up to 256 characters (accumulated matches make
            // the log quadratic otherwise)
            let text = n <= 256;
            set_use_text(text);
            set_action_budget((n + 2) as u32);
            set_in_flight(entry, vi, input, "new_with_state");
            let mut lx = match catch_unwind(AssertUnwindSafe(|| (fac.new_with_state)(&s, fresh_state(n)))) {
                Ok(l) => l,
                Err(p) => {
                    let m = panic_message(p);
                    push_v(out, stats, viol(ctx, vi, "C09", format!("constructor panicked: {}", m), input, "new_with_state", "".into(), m.clone()));
                    continue;
                }
            };
            let ro = drive(&mut lx, n, 0);
            drop(lx);
            stats.inc("executions", 1);
            stats.inc("items_observed", ro.obs.items.len() as u64);
            stats.inc("actions_observed", ro.obs.evs.len() as u64);
            let obs_els = obs_elements(&ro.obs);
            let vinfo = if vi == 0 { None } else { Some(spec_info(&specs[vi], n, s.len())) };
            let info_v = vinfo.as_ref().unwrap_or(&info);
            let cross = n <= plan.cross_len;
            compiled[vi].ctx_steps = 0;
            let (h, div, n_amb) = reference_for(&mut compiled[vi], input, text, cross, &obs_els, info_v, harness);
            // ---- evidence counters from the reference's knowledge of this execution
            if vi == 0 {
                account(stats, entry, lead, input, &h, &ro.obs, n_amb, &mut shape_done);
            }
            // ---- model-free invariants
            for (p, d) in model_free(&ro.obs, &s, input, &locs, text, logs_all[vi]) {
                push_v(out, stats, viol(ctx, vi, p, d, input, "new_with_state (model-free invariant)", "".into(), show_calls(&ro.calls)));
            }
            // ---- reference comparison
            if ro.obs.panic.is_none() && !ro.obs.overflow_items {
                if let Some(d) = div {
                    for p in &d.props {
                        let p: &&str = if *p == "C08?" {
                            // control: the empty input (end of input in Init, no failure before it)
                            set_use_text(true);
                            set_action_budget(2);
                            let ok = match catch_unwind(AssertUnwindSafe(|| {
                                let mut l = (fac.new_with_state)("", fresh_state(0));
                                drive(&mut l, 0, 0)
                            })) {
                                Ok(r0) => {
                                    let els0 = obs_elements(&r0.obs);
                                    let info0 = spec_info(&specs[vi], 0, 0);
                                    let (_, d0, _) = reference_for(&mut compiled[vi], &[], true, false, &els0, &info0, harness);
                                    r0.obs.panic.is_none() && d0.is_none()
                                }
                                Err(_) => false,
                            };
                            set_use_text(text);
                            set_action_budget((n + 2) as u32);
                            stats.inc("c08_end_controls", 1);
                            if !ok {
                                continue;
                            }
                            &"C08"
                        } else {
                            p
                        };
                        push_v(
                            out,
                            stats,
                            viol(ctx, vi, p, format!("{} (element {})", d.what, d.index), input, "new_with_state vs reference", d.expected.clone(), d.observed.clone()),
                        );
                    }
                }
            } else if let Some(m) = &ro.obs.panic {
                if m.contains(ACTION_BUDGET_MSG) || m.contains(READ_BUDGET_MSG) {
                    // already reported as C09 by model_free (panic)
                }
            }
            primary_calls[vi] = Some(norm_calls(&ro.calls));

            // ---- other constructors (C14), also gives the read counter (C09)
            if plan.ctors && vi == 0 {
                set_in_flight(entry, vi, input, "other constructors");
                let prim = primary_calls[vi].as_ref().unwrap();
                let prim_nt = strip_text(prim);
                let counter = Cell::new(0u64);
                // polynomial budget, never below 32x what the reference itself had to examine on this
                // input (scans + context evaluations): rewind- and context-heavy definitions are
                // inherently quadratic / cubic and must not be mistaken for non-termination
                let ref_work = h.stats.chars_examined + compiled[vi].ctx_steps;
                let limit = read_limit(n, n_rules).max(32 * ref_work + 4096);
                let mut variants: Vec<(&str, bool, Calls)> = vec![];
                {
                    set_use_text(text);
                    let r = catch_unwind(AssertUnwindSafe(|| {
                        let mut l = (fac.new)(&s);
                        drive(&mut l, n, 0)
                    }));
                    HEARTBEAT.fetch_add(1, Ordering::Relaxed);
                    if let Ok(r) = r {
                        if let Some(m) = &r.obs.panic {
                            push_v(out, stats, viol(ctx, vi, "C09", format!("panic: {}", m), input, "new", "".into(), show_calls(&r.calls)));
                        }
                        variants.push(("new", text, r.calls));
                    }
                }
                set_use_text(false);
                let names = [
                    "new_from_iter(chars)",
                    "new_from_iter_with_state(chars)",
                    "new_from_iter(counting)",
                    "new_from_iter_with_state(counting)",
                ];
                for (which, name) in names.iter().enumerate() {
                    counter.set(0);
                    let r = catch_unwind(AssertUnwindSafe(|| {
                        let mut l = make_iter_lexer(fac, which, &s, &counter, limit, n);
                        drive(&mut l, n, 0)
                    }));
                    match r {
                        Ok(r) => {
                            if let Some(m) = &r.obs.panic {
                                if m.contains(READ_BUDGET_MSG) {
                                    push_v(out, stats, viol(ctx, vi, "C09", format!("more than {} characters pulled from the input for {} characters", limit, n), input, name, "".into(), m.clone()));
                                } else {
                                    push_v(out, stats, viol(ctx, vi, "C09", format!("panic: {}", m), input, name, "".into(), show_calls(&r.calls)));
                                }
                            }
                            if r.obs.overflow_items || r.obs.after_none_some > 0 {
                                push_v(out, stats, viol(ctx, vi, if r.obs.overflow_items { "C09" } else { "C05" }, "item count / fused-stream invariant broken".to_string(), input, name, "".into(), show_calls(&r.calls)));
                            }
                            stats.max("max_reads_per_char_x100", counter.get() * 100 / (n as u64 + 1));
                            variants.push((name, false, r.calls));
                        }
                        Err(p) => {
                            let m = panic_message(p);
                            push_v(out, stats, viol(ctx, vi, "C09", format!("constructor panicked: {}", m), input, name, "".into(), m.clone()));
                        }
                    }
                    HEARTBEAT.fetch_add(1, Ordering::Relaxed);
                    stats.inc("executions", 1);
                    stats.inc("ctor_executions", 1);
                }
                set_use_text(text);
                for (name, with_text, calls) in &variants {
                    let a = if *with_text { norm_calls(calls) } else { strip_text(calls) };
                    let b = if *with_text { prim.clone() } else { prim_nt.clone() };
                    if a != b {
                        push_v(
                            out,
                            stats,
                            viol(ctx, vi, "C14", format!("{} differs from new_with_state", name), input, name, show_calls(&b), show_calls(&a)),
                        );
                        // what an action sees through peek() / match_loc() is also part of the action
                        // protocol: if the first difference is inside an action's view, report C10 too
                        let flat = |c: &Calls| -> Vec<El> {
                            let mut v = vec![];
                            for (evs, it) in c {
                                for e in evs {
                                    v.push(El::Ev(e.clone()));
                                }
                                match it {
                                    Some(i) => v.push(El::It(i.clone())),
                                    None => v.push(El::End),
                                }
                            }
                            v
                        };
                        let (fa, fb) = (flat(&a), flat(&b));
                        if let Some(k) = (0..fa.len().min(fb.len())).find(|k| fa[*k] != fb[*k]) {
                            if let (El::Ev(x), El::Ev(y)) = (&fa[k], &fb[k]) {
                                if x.rule == y.rule && x.me.byte == y.me.byte && x.ms.byte == y.ms.byte && (x.pk != y.pk || x.post != y.post) {
                                    push_v(
                                        out,
                                        stats,
                                        viol(ctx, vi, "C10", format!("peek() / match after reset seen by an action differs under {}", name), input, name, El::Ev(y.clone()).show(), El::Ev(x.clone()).show()),
                                    );
                                }
                            }
                        }
                    }
                }
            }

            // ---- clone schedules (C15)
            if plan.clones > 0 && vi == 0 && ii % plan.clones == 0 && ro.obs.panic.is_none() {
                let prim = primary_calls[vi].as_ref().unwrap();
                let n_calls = prim.len();
                for k in 0..=(n_calls + 1) {
                    for sched in 0..3u8 {
                        set_use_text(text);
                        let r = catch_unwind(AssertUnwindSafe(|| clone_run(fac, &s, n, k, sched)));
                        stats.inc("clone_runs", 1);
                        match r {
                            Err(p) => {
                                let m = panic_message(p);
                                push_v(out, stats, viol(ctx, vi, "C15", format!("panic in clone schedule k={} sched={}: {}", k, sched, m), input, "clone", "".into(), m));
                            }
                            Ok((a_calls, b_calls)) => {
                                // expected remainder: calls k.. of the primary; after the final None every call gives None
                                let mut exp_rem: Calls = if k < n_calls { prim[k..].to_vec() } else { vec![(vec![], None)] };
                                if exp_rem.is_empty() {
                                    exp_rem = vec![(vec![], None)];
                                }
                                for (who, calls) in [("original", &a_calls), ("clone", &b_calls)] {
                                    let got = norm_calls(calls);
                                    if got != exp_rem {
                                        push_v(
                                            out,
                                            stats,
                                            viol(
                                                ctx,
                                                vi,
                                                "C15",
                                                format!("{} diverges after cloning at call {} (schedule {})", who, k, ["original first", "clone first", "alternating"][sched as usize]),
                                                input,
                                                "clone",
                                                show_calls(&exp_rem),
                                                show_calls(&got),
                                            ),
                                        );
                                    }
                                }
                                // interesting clone points
                                let after_err = k > 0 && k <= n_calls && matches!(prim[k - 1].1, Some(Item::ErrInvalid { .. }) | Some(Item::ErrCustom { .. }));
                                if sched == 0 {
                                    if after_err {
                                        stats.inc("clone_points_after_error", 1);
                                    }
                                    if k >= n_calls {
                                        stats.inc("clone_points_after_none", 1);
                                    }
                                    stats.inc("clone_points", 1);
                                }
                            }
                        }
                    }
                }
            }
        }
        // ---- variants must agree with each other (items only: logging differs for sugar forms)
        if entry.variants.len() > 1 && !entry.variants[0].0.starts_with("multi") {
            if let Some(p0) = &primary_calls[0] {
                let items0: Vec<Option<Item>> = p0.iter().map(|c| c.1.clone()).collect();
                for vi in 1..entry.variants.len() {
                    if let Some(pv) = &primary_calls[vi] {
                        let itemsv: Vec<Option<Item>> = pv.iter().map(|c| c.1.clone()).collect();
                        stats.inc("variant_comparisons", 1);
                        let label = entry.variants[vi].0;
                        // equivalent regexes have different automata: where an error is *located*
                        // is C07's business, so partners are compared modulo error locations
                        let strip = |v: &Vec<Option<Item>>| -> Vec<Option<Item>> {
                            v.iter()
                                .map(|i| match i {
                                    Some(Item::ErrInvalid { .. }) => Some(Item::ErrInvalid { loc: Default::default() }),
                                    Some(Item::ErrCustom { payload, .. }) => Some(Item::ErrCustom { loc: Default::default(), payload: *payload }),
                                    o => o.clone(),
                                })
                                .collect()
                        };
                        let differ = if label.starts_with("equiv") { strip(&items0) != strip(&itemsv) } else { items0 != itemsv };
                        if differ {
                            let prop = if label.starts_with("equiv") {
                                "C02"
                            } else if label.starts_with("desugar") {
                                "C10"
                            } else {
                                "C16"
                            };
                            push_v(
                                out,
                                stats,
                                viol(ctx, vi, prop, format!("variant '{}' behaves differently from variant 0", label), input, "variant comparison", show_calls(p0), show_calls(pv)),
                            );
                        }
                    }
                }
            }
        }
    }
}

fn make_iter_lexer<'b>(fac: &Factory, which: usize, s: &'b str, counter: &'b Cell<u64>, limit: u64, n: usize) -> BoxLex<'b> {
    match which {
        0 => (fac.from_chars)(s),
        1 => (fac.from_chars_st)(s, fresh_state(n)),
        2 => (fac.from_count)(CountIter {
            inner: s.chars(),
            count: counter,
            limit,
        }),
        _ => (fac.from_count_st)(
            CountIter {
                inner: s.chars(),
                count: counter,
                limit,
            },
            fresh_state(n),
        ),
    }
}

/// Would a wrong grammar read the minimal printing of this tree as a different language? Counts,
/// per wrong grammar, the definitions for which some input of this run separates the two readings
/// (or for which the wrong reading is not even a valid definition).
fn c16_discrimination(spec: &Spec, inputs_v: &[Vec<char>], stats: &mut Stats, harness: &mut Vec<String>, entry: &CaseEntry) {
    use vmodel::altparse::{parse, Grammar, WRONG};
    use vmodel::class::{is_class_expr, Env};
    use vmodel::print::{Paren, RePrinter};
    let rule = match spec.all_rules().next() {
        Some((_, r)) => r.clone(),
        None => return,
    };
    let env = Env::new();
    let text = RePrinter::new(Paren::Minimal, 0).print(&rule.re);
    match parse(&text, Grammar::Documented) {
        Some(t) if t == rule.re => {}
        other => {
            harness.push(format!("{}#{}: printing `{}` does not parse back to the tree under the documented grammar: {:?}", entry.family, entry.index, text, other));
            return;
        }
    }
    fn diff_ok(re: &vmodel::spec::Re, env: &Env) -> bool {
        let mut ok = true;
        re.visit(&mut |x| {
            if let vmodel::spec::Re::Diff(a, b) = x {
                if !is_class_expr(a, env) || !is_class_expr(b, env) {
                    ok = false;
                }
            }
        });
        ok
    }
    let mut any = false;
    for g in WRONG.iter() {
        let name = format!("{:?}", g);
        match parse(&text, *g) {
            None => {
                stats.class("c16_wrong_grammar", &format!("{}: unparseable", name));
                any = true;
                stats.inc("nt_C16", 1);
            }
            Some(t) if t == rule.re => {
                stats.class("c16_wrong_grammar", &format!("{}: same tree (not exercised)", name));
            }
            Some(t) => {
                if !diff_ok(&t, &env) {
                    stats.class("c16_wrong_grammar", &format!("{}: wrong reading would be rejected", name));
                    any = true;
                    stats.inc("nt_C16", 1);
                    continue;
                }
                let mut sep = false;
                for w in inputs_v.iter().take(4000) {
                    let a = vmodel::matcher::ends(&rule.re, &env, w, 0, false);
                    let b = vmodel::matcher::ends(&t, &env, w, 0, false);
                    if a != b {
                        sep = true;
                        break;
                    }
                }
                if sep {
                    stats.class("c16_wrong_grammar", &format!("{}: separated by an input of this run", name));
                    any = true;
                    stats.inc("nt_C16", 1);
                } else {
                    stats.class("c16_wrong_grammar", &format!("{}: different tree, same language on this run's inputs", name));
                }
            }
        }
    }
    if any {
        stats.inc("nt_C16_definitions", 1);
        stats.sample("C16", || {
            J::obj()
                .with("kind", J::s("minimal printing that a wrong grammar would read differently"))
                .with("printing", J::s(&text))
                .with("family", J::s(entry.family))
                .with("index", J::i(entry.index))
        });
    }
}

/// Clone the lexer after `k` calls and run original and clone under a schedule.
fn clone_run(fac: &Factory, s: &str, n: usize, k: usize, sched: u8) -> (Calls, Calls) {
    let mut a = (fac.new_with_state)(s, fresh_state(n));
    for _ in 0..k {
        let _ = a.next_item();
        a.st().log.clear();
    }
    let mut b = a.dup();
    let mut ac: Calls = vec![];
    let mut bc: Calls = vec![];
    let step = |l: &mut BoxLex, into: &mut Calls| -> bool {
        let it = l.next_item();
        let evs: Vec<crate::Ev> = l.st().log.drain(..).collect();
        let done = it.is_none();
        into.push((evs, it));
        done || into.len() > n + 4
    };
    match sched {
        0 => {
            while !step(&mut a, &mut ac) {}
            while !step(&mut b, &mut bc) {}
        }
        1 => {
            while !step(&mut b, &mut bc) {}
            while !step(&mut a, &mut ac) {}
        }
        _ => {
            let mut da = false;
            let mut db = false;
            while !(da && db) {
                if !da {
                    da = step(&mut a, &mut ac);
                }
                if !db {
                    db = step(&mut b, &mut bc);
                }
            }
        }
    }
    (ac, bc)
}

/// Evidence accounting for one execution (variant 0, primary constructor).
fn account(stats: &mut Stats, entry: &CaseEntry, spec: &Spec, input: &[char], h: &History, obs: &Obs, n_amb: usize, shape_done: &mut bool) {
    let st = &h.stats;
    let n = input.len();
    stats.inc("ref_rewinds", st.rewinds as u64);
    stats.inc("ref_ties", st.ties as u64);
    stats.inc("ref_failures", st.failures as u64);
    stats.inc("ref_eoi_events", st.eoi_events as u64);
    stats.inc("ref_switches", st.switches as u64);
    stats.inc("ref_ctx_failed", st.ctx_evals_failed as u64);
    stats.inc("ref_ctx_passed", st.ctx_evals_passed as u64);
    stats.inc("ref_ambiguous_points", n_amb as u64);
    stats.max("max_rewind_depth", st.max_rewind as u64);
    stats.max("max_input_len", n as u64);
    if st.max_rewind > 0 {
        stats.class("rewind_depth", &st.max_rewind.min(9).to_string());
    }
    let sample = |what: &str| -> J {
        J::obj()
            .with("kind", J::s(what))
            .with("family", J::s(entry.family))
            .with("index", J::i(entry.index))
            .with("definition", J::s(&summarize(spec)))
            .with("input", J::s(&show_input(input)))
            .with(
                "observed_items",
                J::Arr(obs.items.iter().map(|i| J::s(&El::It(i.clone()).show())).collect()),
            )
    };
    // C01
    if st.rewinds > 0 || st.ties > 0 {
        stats.inc("nt_C01", 1);
        stats.sample("C01", || sample("rewind or priority tie"));
    }
    // C02 (per case)
    if !*shape_done {
        *shape_done = true;
        let mut ops = 0;
        for (_, r) in spec.all_rules() {
            ops += r.re.size();
        }
        if ops >= 1 {
            stats.inc("nt_C02_cases", 1);
        }
        let sk: Vec<String> = spec.all_rules().map(|(_, r)| r.re.skeleton()).collect();
        stats.class("tree_ops", &ops.min(12).to_string());
        let _ = sk;
        for (_, r) in spec.all_rules() {
            if let Some(c) = &r.ctx {
                stats.class("ctx_shape", &c.skeleton());
            }
        }
    }
    stats.inc("nt_C02", 1);
    stats.sample("C02", || sample("language membership"));
    // C03
    if st.sets_entered.len() >= 2 {
        stats.inc("nt_C03", 1);
        stats.sample("C03", || sample("two or more rule sets entered"));
        stats.class("sets_entered", &st.sets_entered.len().to_string());
    }
    // C04
    if st.ctx_evals_failed > 0 && st.ctx_evals_passed > 0 {
        stats.inc("nt_C04", 1);
        stats.sample("C04", || sample("context failed and passed"));
    } else if st.ctx_evals_failed + st.ctx_evals_passed > 0 {
        stats.inc("nt_C04_weak", 1);
    }
    // C05
    if let Some((non_init, where_, fired)) = st.end_class {
        let key = format!("set={} end={} dollar_fired={}", if non_init { "other" } else { "Init" }, ["boundary", "inside-lexeme", "after-rewind"][where_ as usize], fired);
        stats.class("end_class", &key);
        if non_init || where_ != 0 || fired {
            stats.inc("nt_C05", 1);
            stats.sample("C05", || sample(&key));
        }
    }
    // C06
    let wide_rewind = h.meta.iter().any(|m| m.rewind > 0 && m.rewind_wide);
    if wide_rewind {
        stats.inc("nt_C06", 1);
        stats.sample("C06", || sample("rewind across a non-ASCII/TAB/LF character"));
    }
    stats.inc("locs_checked", (obs.evs.len() * 2 + obs.items.len() * 2) as u64);
    // C07
    if st.failures > 0 || obs.items.iter().any(|i| matches!(i, Item::ErrCustom { .. })) {
        stats.inc("nt_C07", 1);
        stats.sample("C07", || sample("error item"));
        for (cls, acc) in &st.fail_classes {
            stats.class("failure_class", &format!("pos={} accumulated={}", ["first-char", "mid-lexeme", "end-of-input"][*cls as usize], acc));
        }
        if obs.items.iter().any(|i| matches!(i, Item::ErrCustom { .. })) {
            stats.class("failure_class", "custom");
        }
    }
    // C08: failure in a non-Init set followed by >= 2 tokens
    if st.failures_non_init > 0 {
        let first_err = h.items.iter().position(|i| matches!(i, Item::ErrInvalid { .. }));
        if let Some(p) = first_err {
            let after = h.items.len() - p - 1;
            if after >= 2 {
                stats.inc("nt_C08", 1);
                stats.sample("C08", || sample("failure outside Init followed by two or more items"));
            } else {
                stats.inc("nt_C08_weak", 1);
            }
        }
    }
    // C09
    if n >= 1000 || st.rewinds > 0 || h.items.last().map(|i| i.is_err()).unwrap_or(false) {
        stats.inc("nt_C09", 1);
        stats.sample("C09", || sample("long input, rewind, or error at the end"));
    }
    stats.inc("chars_lexed", n as u64);
    // C10: action-kind histories
    let kinds: Vec<&str> = h.meta.iter().map(|m| m.outcome.as_str()).collect();
    if kinds.len() >= 3 {
        let mut distinct = kinds.clone();
        distinct.sort();
        distinct.dedup();
        if distinct.len() >= 2 {
            stats.inc("nt_C10", 1);
            let key = kinds.join(",");
            let hsh = hash64(key.as_bytes());
            stats.class("action_history_hash_mod64", &(hsh % 64).to_string());
            stats.sample("C10", || sample(&format!("action history {}", key)));
        }
    }
    // C14 / C15
    if st.rewinds > 0 || st.ctx_evals_failed + st.ctx_evals_passed > 0 {
        stats.inc("nt_C14", 1);
        stats.sample("C14", || sample("rewind or context evaluation"));
    }
    if st.rewinds > 0 || st.sets_entered.len() >= 2 || st.failures > 0 {
        stats.inc("nt_C15", 1);
        stats.sample("C15", || sample("rewind, switch or failure before a clone point"));
    }
}

static HEARTBEAT: AtomicU64 = AtomicU64::new(0);

fn cpu_ticks() -> u64 {
    // utime + stime of this process in clock ticks
    if let Ok(s) = std::fs::read_to_string("/proc/self/stat") {
        if let Some(idx) = s.rfind(')') {
            let f: Vec<&str> = s[idx + 2..].split_whitespace().collect();
            if f.len() > 13 {
                let u: u64 = f[11].parse().unwrap_or(0);
                let k: u64 = f[12].parse().unwrap_or(0);
                return u + k;
            }
        }
    }
    0
}

/// What each worker thread is executing right now: (family, index, variant, input as code points,
/// which constructor). Read by the watchdog when no progress is made, so that a hang names the
/// definition and the input and can be replayed.
static IN_FLIGHT: Mutex<BTreeMap<u64, (String, usize, usize, Vec<u32>, &'static str)>> = Mutex::new(BTreeMap::new());

thread_local! {
    static WORKER_SLOT: Cell<u64> = const { Cell::new(u64::MAX) };
}

fn set_in_flight(entry: &CaseEntry, variant: usize, input: &[char], ctor: &'static str) {
    let slot = WORKER_SLOT.with(|c| c.get());
    if let Ok(mut m) = IN_FLIGHT.try_lock() {
        m.insert(slot, (entry.family.to_string(), entry.index as usize, variant, input.iter().map(|c| *c as u32).collect(), ctor));
    }
}

fn clear_in_flight() {
    let slot = WORKER_SLOT.with(|c| c.get());
    if let Ok(mut m) = IN_FLIGHT.lock() {
        m.remove(&slot);
    }
}

/// Exit without running destructors or taking any lock (the stuck thread may hold some).
fn unsafe_exit(code: i32) -> ! {
    std::process::exit(code)
}

/// Entry point of a generated batch binary.
pub fn run_batch(batch_name: &str, cases: &[CaseEntry]) {
    let plan = Plan::from_env();
    std::panic::set_hook(Box::new(|info| {
        let m = info.to_string();
        PANIC_MSG.with(|p| *p.borrow_mut() = Some(m));
    }));
    let next = AtomicUsize::new(0);
    let current: Mutex<BTreeMap<usize, String>> = Mutex::new(BTreeMap::new());
    let all_stats: Mutex<Stats> = Mutex::new(Stats::default());
    let lines: Mutex<Vec<String>> = Mutex::new(vec![]);
    let done = std::sync::atomic::AtomicBool::new(false);
    let stuck_cpu_s = env_usize("VP_STUCK_CPU_S", 120) as u64;
    let initial_ppid = if cfg!(miri) { 0 } else { std::os::unix::process::parent_id() };
    std::thread::scope(|sc| {
        // watchdog: no case finished and >= stuck_cpu_s CPU-seconds burnt since the last heartbeat
        sc.spawn(|| {
            let mut last_hb = HEARTBEAT.load(Ordering::Relaxed);
            let mut cpu_at_hb = cpu_ticks();
            loop {
                for _ in 0..10 {
                    std::thread::sleep(std::time::Duration::from_millis(200));
                    if done.load(Ordering::Relaxed) {
                        return;
                    }
                }
                if !cfg!(miri) && std::os::unix::process::parent_id() != initial_ppid {
                    // the orchestrator is gone: nobody will read the result
                    unsafe_exit(4);
                }
                let hb = HEARTBEAT.load(Ordering::Relaxed);
                let cpu = cpu_ticks();
                if hb != last_hb {
                    last_hb = hb;
                    cpu_at_hb = cpu;
                } else if cpu.saturating_sub(cpu_at_hb) >= stuck_cpu_s * 100 {
                    let what: Vec<String> = match current.lock() {
                        Ok(cur) => cur.values().cloned().collect(),
                        Err(_) => vec![],
                    };
                    // never let a failing write (parent gone, pipe closed) keep a spinning process alive
                    use std::io::Write;
                    let line = J::obj()
                        .with("t", J::s("STUCK"))
                        .with("batch", J::s(batch_name))
                        .with("cases", J::Arr(what.iter().map(|s| J::s(s)).collect()))
                        .with(
                            "in_flight",
                            J::Arr(match IN_FLIGHT.try_lock() {
                                Ok(m) => m
                                    .values()
                                    .map(|(f, i, v, inp, ctor)| {
                                        J::obj()
                                            .with("family", J::s(f))
                                            .with("index", J::i(*i))
                                            .with("variant", J::i(*v))
                                            .with("input", J::Arr(inp.iter().map(|c| J::Int(*c as i64)).collect()))
                                            .with("ctor", J::s(ctor))
                                    })
                                    .collect(),
                                Err(_) => vec![],
                            }),
                        )
                        .with("cpu_s", J::Int((cpu.saturating_sub(cpu_at_hb) / 100) as i64))
                        .to_string();
                    let _ = writeln!(std::io::stdout(), "{}", line);
                    let _ = std::io::stdout().flush();
                    unsafe_exit(3);
                }
            }
        });
        let mut handles = vec![];
        for t in 0..plan.threads.max(1) {
            let plan = &plan;
            let next = &next;
            let current = &current;
            let all_stats = &all_stats;
            let lines = &lines;
            // generated `next()` functions of large lexers have very large frames in debug builds:
            // give the workers a generous stack
            let builder = std::thread::Builder::new().stack_size(512 << 20);
            handles.push(builder.spawn_scoped(sc, move || loop {
                WORKER_SLOT.with(|c| c.set(t as u64));
                clear_in_flight();
                let i = next.fetch_add(1, Ordering::SeqCst);
                if i >= cases.len() {
                    current.lock().unwrap().remove(&t);
                    break;
                }
                let entry = &cases[i];
                current.lock().unwrap().insert(t, format!("{}#{}", entry.family, entry.index));
                let ctx = CaseCtx {
                    entry,
                    plan,
                    batch: batch_name,
                };
                let mut stats = Stats::default();
                let mut viols = vec![];
                let mut harness = vec![];
                let r = catch_unwind(AssertUnwindSafe(|| run_case(&ctx, &mut stats, &mut viols, &mut harness)));
                if let Err(p) = r {
                    harness.push(format!("driver panicked on {}#{}: {}", entry.family, entry.index, panic_message(p)));
                }
                let mut out = lines.lock().unwrap();
                for v in viols {
                    out.push(J::obj().with("t", J::s("V")).with("v", v.detail).to_string());
                }
                harness.dedup();
                for h in harness.iter().take(5) {
                    out.push(
                        J::obj()
                            .with("t", J::s("H"))
                            .with("family", J::s(entry.family))
                            .with("index", J::i(entry.index))
                            .with("msg", J::s(h))
                            .to_string(),
                    );
                }
                drop(out);
                all_stats.lock().unwrap().merge(stats);
                HEARTBEAT.fetch_add(1, Ordering::Relaxed);
                current.lock().unwrap().remove(&t);
            }).expect("spawn worker"));
        }
        for h in handles {
            let _ = h.join();
        }
        done.store(true, Ordering::Relaxed);
    });
    for l in lines.lock().unwrap().iter() {
        println!("{}", l);
    }
    let st = all_stats.lock().unwrap();
    println!(
        "{}",
        J::obj().with("t", J::s("S")).with("batch", J::s(batch_name)).with("stats", st.to_json()).to_string()
    );
}
