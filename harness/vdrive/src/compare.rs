//! Comparison of an observed history with the reference history and classification of the first
//! divergence into the properties it refutes; plus model-free invariants.

use vmodel::reflex::{Ev, EvMeta, History, Item, Loc};

#[derive(Clone, Debug, Default)]
pub struct Obs {
    pub items: Vec<Item>,
    pub evs: Vec<Ev>,
    pub item_ev_end: Vec<usize>,
    pub ended: bool,
    pub after_none_some: usize,
    pub panic: Option<String>,
    pub reads: u64,
    pub actions: u32,
    pub overflow_items: bool,
}

#[derive(Clone, Debug, PartialEq)]
pub enum El {
    Ev(Ev),
    It(Item),
    End,
}

impl El {
    pub fn show(&self) -> String {
        match self {
            El::Ev(e) => format!(
                "action(rule={} match={}:{}:{}..{}:{}:{} peek={:?} text={:?} cnt={} post={:?})",
                e.rule, e.ms.line, e.ms.col, e.ms.byte, e.me.line, e.me.col, e.me.byte, e.pk, e.tx, e.cnt,
                e.post.map(|(a, b)| (a.byte, b.byte))
            ),
            El::It(Item::Tok { start, rule, val, end }) => format!(
                "Ok({}:{}:{}, Tok({},{}), {}:{}:{})",
                start.line, start.col, start.byte, rule, val, end.line, end.col, end.byte
            ),
            El::It(Item::ErrInvalid { loc }) => format!("Err(InvalidToken@{}:{}:{})", loc.line, loc.col, loc.byte),
            El::It(Item::ErrCustom { loc, payload }) => {
                format!("Err(Custom({})@{}:{}:{})", payload, loc.line, loc.col, loc.byte)
            }
            El::End => "None".to_string(),
        }
    }
}

pub fn obs_elements(o: &Obs) -> Vec<El> {
    let mut v = vec![];
    let mut prev = 0;
    for (i, it) in o.items.iter().enumerate() {
        let end = o.item_ev_end.get(i).copied().unwrap_or(o.evs.len());
        for e in &o.evs[prev..end] {
            v.push(El::Ev(norm_ev(e)));
        }
        prev = end;
        v.push(El::It(it.clone()));
    }
    for e in &o.evs[prev..] {
        v.push(El::Ev(norm_ev(e)));
    }
    if o.ended {
        v.push(El::End);
    }
    v
}

fn norm_ev(e: &Ev) -> Ev {
    let mut e = e.clone();
    e.call = 0;
    e
}

/// Expected elements with the reference's meta information and the "after failure" context.
pub struct ExpEl {
    /// for El::End: end of input had already been acted upon earlier
    pub end_already_done: bool,
    pub el: El,
    pub meta: Option<EvMeta>,
    /// an InvalidToken error occurred earlier and no action has switched rule sets since
    pub after_failure: bool,
    /// rule set the reference was in while producing this element
    pub set_before: usize,
    /// char position at which the scan that produced this element started
    pub scan_pos: usize,
    /// rule set in which the last failure happened (while `after_failure`)
    pub failed_in: Option<usize>,
    /// match start (char position) and action counter before the scan that produced this element
    pub ms_pos: usize,
    pub cnt: u32,
}

pub fn exp_elements(h: &History) -> Vec<ExpEl> {
    let mut v = vec![];
    let mut prev = 0;
    let mut after_failure = false;
    let mut failed_in: Option<usize> = None;
    for (i, it) in h.items.iter().enumerate() {
        let end = h.item_ev_end[i];
        for k in prev..end {
            let m = &h.meta[k];
            if m.logged {
                v.push(ExpEl {
                    end_already_done: false,
                    el: El::Ev(norm_ev(&h.evs[k])),
                    meta: Some(m.clone()),
                    after_failure,
                    set_before: m.set,
                    scan_pos: m.lex_start,
                    failed_in,
                    ms_pos: m.ms_before,
                    cnt: h.evs[k].cnt,
                });
            }
            if m.outcome.contains('s') {
                after_failure = false;
                failed_in = None;
            }
        }
        prev = end;
        v.push(ExpEl {
            end_already_done: false,
            el: El::It(it.clone()),
            meta: None,
            after_failure,
            set_before: h.item_set.get(i).copied().unwrap_or(0),
            scan_pos: h.item_scan_pos.get(i).copied().unwrap_or(0),
            failed_in,
            ms_pos: h.item_ms.get(i).copied().unwrap_or(0),
            cnt: h.item_cnt.get(i).copied().unwrap_or(0),
        });
        if matches!(it, Item::ErrInvalid { .. }) {
            after_failure = true;
            failed_in = Some(h.item_set.get(i).copied().unwrap_or(0));
        }
    }
    for k in prev..h.evs.len() {
        let m = &h.meta[k];
        if m.logged {
            v.push(ExpEl {
                end_already_done: false,
                el: El::Ev(norm_ev(&h.evs[k])),
                meta: Some(m.clone()),
                after_failure,
                set_before: m.set,
                scan_pos: m.lex_start,
                failed_in,
                ms_pos: m.ms_before,
                cnt: h.evs[k].cnt,
            });
        }
        if m.outcome.contains('s') {
            after_failure = false;
            failed_in = None;
        }
    }
    if h.final_done {
        v.push(ExpEl {
            end_already_done: h.end_kind == 2,
            el: El::End,
            meta: None,
            after_failure,
            set_before: h.end_set,
            scan_pos: h.end_pos,
            failed_in,
            ms_pos: h.end_ms,
            cnt: h.end_cnt,
        });
    }
    v
}

#[derive(Clone, Debug)]
pub struct Divergence {
    pub index: usize,
    pub props: Vec<&'static str>,
    pub what: String,
    pub expected: String,
    pub observed: String,
}

pub struct SpecInfo {
    /// rule id -> rule set index
    pub rule_set: Vec<usize>,
    /// per set: does any rule carry a right context / contain `$`
    pub set_has_ctx: Vec<bool>,
    pub set_has_eoi: Vec<bool>,
    pub n_chars: usize,
    pub n_bytes: usize,
}

/// What the reference knows about one rule on one span.
#[derive(Clone, Copy, Debug, Default)]
pub struct RuleMatch {
    /// the rule's regex matches input[start..end] without / through an end-of-input marker
    pub regex_plain: bool,
    pub regex_eoi: bool,
    pub has_ctx: bool,
    /// the rule's right context holds after `end` (true when it has none)
    pub ctx_ok: bool,
}

/// Questions the classifier may ask the reference model about the *observed* behaviour.
pub trait Oracle {
    fn rule_match(&mut self, rule: u32, start: usize, end: usize) -> RuleMatch;
    /// maximal-munch selection from `pos` in rule set `set`: (rule id, end char position), None = nothing matches
    fn select(&mut self, set: usize, pos: usize) -> Option<(u32, usize)>;
    fn pos_of_byte(&self, byte: usize) -> Option<usize>;
    /// maximal-munch selection pretending that candidate (rule, end) did not match
    fn select_excluding(&mut self, set: usize, pos: usize, rule: u32, end: usize) -> Option<(u32, usize)>;
    /// Hypothesis test: had the lexer been in rule set `set` at this point (position `pos`, match
    /// start `ms`, action counter `cnt`), would the reference produce exactly `obs_rest`?
    /// With `need_evidence` the hypothesis is only accepted if the hypothetical run starts by
    /// executing a rule of `set` (otherwise an immediate failure in any rule set would "explain"
    /// an InvalidToken).
    fn explains(&mut self, set: usize, pos: usize, ms: usize, cnt: u32, obs_rest: &[El], need_evidence: bool) -> bool;
    fn n_sets(&self) -> usize;
}

fn add(props: &mut Vec<&'static str>, p: &'static str) {
    if !props.contains(&p) {
        props.push(p);
    }
}

struct SelCtx<'a> {
    info: &'a SpecInfo,
    obs_rest: &'a [El],
    ms_pos: usize,
    cnt: u32,
    scan_pos: usize,
    set_before: usize,
    after_failure: bool,
    failed_in: Option<usize>,
    exp_meta: Option<&'a EvMeta>,
}

/// Classify a divergence in *what was selected*: `obs` / `exp` = (rule id, end char position) or None
/// for InvalidToken.
fn classify_selection(props: &mut Vec<&'static str>, c: &SelCtx, oracle: &mut dyn Oracle, obs: Option<(u32, Option<usize>)>, exp: Option<(u32, usize)>) {
    let info = c.info;
    let obs_set = obs.and_then(|(r, _)| info.rule_set.get(r as usize).copied());
    // ---- 0. an action / token for text that lies before the scan position: a stale (abandoned)
    // candidate was replayed, whatever rule set it belongs to
    if let Some((_, oe)) = obs {
        let stale = match oe {
            Some(oe) => oe < c.scan_pos || (oe == c.scan_pos && exp.map(|(_, ee)| ee > c.scan_pos).unwrap_or(true) && c.scan_pos < info.n_chars),
            None => true,
        };
        if stale {
            add(props, "C10");
            add(props, "C01");
            if exp.is_none() {
                add(props, "C07");
            }
            return;
        }
    }
    // ---- A. explained by being in another rule set?
    if let Some(os) = obs_set {
        if os != c.set_before {
            add(props, "C03");
            if c.after_failure {
                add(props, "C08");
            }
            return;
        }
    }
    // hypothesis test: is the *whole remaining observed history* what the reference does when
    // started here in some other rule set? (after a failure: the rule set the failure happened in)
    {
        let mut cands: Vec<usize> = vec![];
        if c.after_failure {
            if let Some(fs) = c.failed_in {
                if fs != c.set_before {
                    cands.push(fs);
                }
            }
        }
        for s in 0..oracle.n_sets() {
            if s != c.set_before && !cands.contains(&s) {
                cands.push(s);
            }
        }
        for s in cands {
            if oracle.explains(s, c.scan_pos, c.ms_pos, c.cnt, c.obs_rest, true) {
                add(props, "C03");
                if c.after_failure && c.failed_in == Some(s) {
                    add(props, "C08");
                }
                return;
            }
        }
    }
    // ---- B. same rule set: language, selection, context or end-of-input?
    let exp_has_ctx = exp
        .map(|(r, e)| oracle.rule_match(r, c.scan_pos, e).has_ctx)
        .unwrap_or(false);
    let exp_via_eoi = c.exp_meta.map(|m| m.via_eoi).unwrap_or(false);
    let exp_rewind = c.exp_meta.map(|m| m.rewind).unwrap_or(0);
    match (obs, exp) {
        (Some((or, oe)), Some((_er, ee))) => {
            match oe {
                Some(oe) if oe >= c.scan_pos => {
                    let m = oracle.rule_match(or, c.scan_pos, oe);
                    if m.regex_plain || m.regex_eoi {
                        if m.has_ctx && !m.ctx_ok {
                            // a candidate whose context does not hold was accepted
                            add(props, "C04");
                        } else {
                            // a genuine candidate, but not the maximal-munch / first-rule one
                            add(props, "C01");
                            if exp_has_ctx {
                                // is this what the lexer does when the expected rule's context is
                                // (wrongly) taken to fail?
                                let (er, ee2) = exp.unwrap();
                                if oracle.select_excluding(c.set_before, c.scan_pos, er, ee2) == Some((or, oe)) {
                                    add(props, "C04");
                                }
                            }
                            if oe < ee {
                                // the lexer stopped short of a longer match: a path of the longer rule
                                // may be missing from the automaton
                                add(props, "C02");
                            }
                        }
                        if (m.regex_eoi && !m.regex_plain) || exp_via_eoi {
                            add(props, "C05");
                        }
                    } else {
                        // the observed rule does not match the observed lexeme at all
                        add(props, "C02");
                        if oe == ee {
                            // ... but the expected rule does, on exactly this lexeme: the wrong
                            // rule's action ran for a correctly delimited match
                            add(props, "C01");
                        }
                        if exp_via_eoi || oe == info.n_chars && info.set_has_eoi.get(c.set_before).copied().unwrap_or(false) {
                            add(props, "C05");
                        }
                    }
                }
                _ => {
                    // lexeme ends before the scan started (or not on a char boundary): a stale candidate
                    add(props, "C10");
                    add(props, "C01");
                }
            }
        }
        (None, Some((_er, _ee))) => {
            add(props, "C07");
            if exp_rewind > 0 {
                // the match was only reachable by rewinding
                add(props, "C01");
            } else {
                // a plain prefix match was not recognised
                add(props, "C02");
            }
            if exp_has_ctx {
                let (er, ee2) = exp.unwrap();
                if oracle.select_excluding(c.set_before, c.scan_pos, er, ee2).is_none() {
                    add(props, "C04");
                }
            }
            if exp_via_eoi {
                add(props, "C05");
            }
        }
        (Some((or, oe)), None) => {
            add(props, "C07");
            match oe {
                Some(oe) if oe > c.scan_pos => {
                    let m = oracle.rule_match(or, c.scan_pos, oe);
                    if (m.regex_plain || m.regex_eoi) && m.has_ctx && !m.ctx_ok {
                        add(props, "C04");
                    } else if m.regex_plain || m.regex_eoi {
                        add(props, "C01");
                    } else {
                        add(props, "C02");
                    }
                }
                _ => {
                    // an action ran for text that was already consumed: an abandoned candidate
                    add(props, "C10");
                }
            }
        }
        (None, None) => {}
    }
}

/// Compare; return the first divergence (None = histories agree).
pub fn first_divergence(obs: &[El], exp: &[ExpEl], info: &SpecInfo, oracle: &mut dyn Oracle) -> Option<Divergence> {
    let n = obs.len().max(exp.len());
    for i in 0..n {
        let o = obs.get(i);
        let e = exp.get(i);
        match (o, e) {
            (Some(o), Some(e)) if *o == e.el => continue,
            _ => {}
        }
        let mut props: Vec<&'static str> = vec![];
        let what;
        let last = exp.last();
        let after_failure = e.map(|e| e.after_failure).unwrap_or_else(|| last.map(|l| l.after_failure).unwrap_or(false));
        let sc = SelCtx {
            info,
            obs_rest: &obs[i.min(obs.len())..],
            ms_pos: e.map(|e| e.ms_pos).unwrap_or_else(|| last.map(|l| l.ms_pos).unwrap_or(0)),
            cnt: e.map(|e| e.cnt).unwrap_or_else(|| last.map(|l| l.cnt).unwrap_or(0)),
            scan_pos: e.map(|e| e.scan_pos).unwrap_or_else(|| last.map(|l| l.scan_pos).unwrap_or(0)),
            set_before: e.map(|e| e.set_before).unwrap_or_else(|| last.map(|l| l.set_before).unwrap_or(0)),
            after_failure,
            failed_in: e.map(|e| e.failed_in).unwrap_or_else(|| last.and_then(|l| l.failed_in)),
            exp_meta: e.and_then(|e| e.meta.as_ref()),
        };
        let exp_sel_of_ev = |ee: &Ev, oracle: &dyn Oracle| -> Option<(u32, usize)> { oracle.pos_of_byte(ee.me.byte).map(|p| (ee.rule, p)) };
        match (o, e.map(|e| &e.el)) {
            (Some(El::Ev(oe)), Some(El::Ev(ee))) => {
                if oe.rule == ee.rule && oe.me.byte == ee.me.byte {
                    // same lexeme selected; some other field differs
                    if oe.ms.byte != ee.ms.byte {
                        if after_failure {
                            add(&mut props, "C08");
                        } else {
                            add(&mut props, "C10");
                        }
                        what = "match start (accumulated span) differs";
                    } else if oe.ms != ee.ms || oe.me != ee.me {
                        add(&mut props, "C06");
                        what = "line/column of match_loc() differs";
                    } else if oe.pk != ee.pk {
                        add(&mut props, "C10");
                        what = "peek() differs";
                    } else if oe.tx != ee.tx {
                        add(&mut props, "C10");
                        add(&mut props, "C06");
                        what = "match_() text differs";
                    } else if oe.cnt != ee.cnt {
                        if after_failure {
                            add(&mut props, "C08");
                        } else {
                            add(&mut props, "C10");
                        }
                        what = "user state (action counter) differs";
                    } else {
                        add(&mut props, "C10");
                        what = "match_loc() after reset_match() differs";
                    }
                } else {
                    let exp_sel = exp_sel_of_ev(ee, oracle);
                    let obs_sel = Some((oe.rule, oracle.pos_of_byte(oe.me.byte)));
                    classify_selection(&mut props, &sc, oracle, obs_sel, exp_sel);
                    what = "a different (rule, lexeme) was selected";
                }
            }
            (Some(El::It(oi)), Some(El::It(ei))) => match (oi, ei) {
                (
                    Item::Tok { start: os, rule: or, val: ov, end: oe },
                    Item::Tok { start: es, rule: er, val: ev, end: ee },
                ) => {
                    if or != er || oe.byte != ee.byte {
                        // tokens of rules that do not log (`re = t`): the selection itself differs
                        let exp_sel = oracle.pos_of_byte(ee.byte).map(|p| (*er, p));
                        let obs_sel = Some((*or, oracle.pos_of_byte(oe.byte)));
                        classify_selection(&mut props, &sc, oracle, obs_sel, exp_sel);
                        what = "a different (rule, lexeme) was selected (token of a rule without action log)";
                    } else if ov != ev {
                        add(&mut props, "C10");
                        what = "token value differs";
                    } else if !loc_bytes_eq(os, es) {
                        add(&mut props, "C10");
                        what = "token span start differs";
                    } else {
                        add(&mut props, "C06");
                        what = "line/column of token span differs";
                    }
                }
                (Item::ErrInvalid { loc: ol }, Item::ErrInvalid { loc: el }) => {
                    if ol.byte != el.byte {
                        add(&mut props, "C07");
                        what = "InvalidToken location differs";
                    } else {
                        add(&mut props, "C06");
                        add(&mut props, "C07");
                        what = "line/column of InvalidToken location differs";
                    }
                }
                (Item::ErrCustom { loc: ol, payload: op }, Item::ErrCustom { loc: el, payload: ep }) => {
                    add(&mut props, "C07");
                    if op != ep {
                        what = "Custom error payload differs";
                    } else if ol.byte != el.byte {
                        what = "Custom error location differs";
                    } else {
                        add(&mut props, "C06");
                        what = "line/column of Custom error location differs";
                    }
                }
                (Item::ErrInvalid { .. }, Item::Tok { rule: er, end: ee, .. }) => {
                    let exp_sel = oracle.pos_of_byte(ee.byte).map(|p| (*er, p));
                    classify_selection(&mut props, &sc, oracle, None, exp_sel);
                    add(&mut props, "C07");
                    what = "InvalidToken where a token was expected";
                }
                (Item::Tok { rule: or, end: oe, .. }, Item::ErrInvalid { .. }) => {
                    let obs_sel = Some((*or, oracle.pos_of_byte(oe.byte)));
                    classify_selection(&mut props, &sc, oracle, obs_sel, None);
                    add(&mut props, "C07");
                    what = "a token where InvalidToken was expected";
                }
                _ => {
                    add(&mut props, "C07");
                    add(&mut props, "C10");
                    what = "item kinds differ";
                }
            },
            (Some(El::End), Some(_)) | (Some(_), Some(El::End)) | (None, Some(El::End)) | (Some(El::End), None) => {
                let already = e.map(|e| e.end_already_done).unwrap_or(false);
                // an action / token of a rule that belongs to a rule set which is not the active one
                let foreign = match o {
                    Some(El::Ev(oe)) => info.rule_set.get(oe.rule as usize).map(|s| *s != sc.set_before).unwrap_or(false),
                    Some(El::It(Item::Tok { rule, .. })) => info.rule_set.get(*rule as usize).map(|s| *s != sc.set_before).unwrap_or(false),
                    _ => false,
                };
                if foreign {
                    add(&mut props, "C03");
                }
                if after_failure && !already && matches!(o, Some(El::End) | None) {
                    // the stream stops right after a failure although Init still has something to
                    // do at this position. Conditional: the driver reports C08 only if the same
                    // lexer handles the end of the input correctly when no failure precedes it.
                    add(&mut props, "C08?");
                }
                if already {
                    // end of input had been acted upon (by a `$` match or an error that saw it):
                    // every further call must give None
                    add(&mut props, "C05");
                } else if after_failure && sc.failed_in.map(|f| f != sc.set_before).unwrap_or(false) {
                    // consistent with the lexer still being in the rule set it failed in?
                    let explained = oracle.explains(sc.failed_in.unwrap(), sc.scan_pos, sc.ms_pos, sc.cnt, sc.obs_rest, false);
                    if explained {
                        add(&mut props, "C08");
                        add(&mut props, "C03");
                    } else {
                        add(&mut props, "C05");
                    }
                } else {
                    add(&mut props, "C05");
                }
                what = "stream ends at a different point";
            }
            (Some(El::It(Item::ErrInvalid { .. })), Some(El::Ev(ee))) => {
                let exp_sel = exp_sel_of_ev(ee, oracle);
                classify_selection(&mut props, &sc, oracle, None, exp_sel);
                add(&mut props, "C07");
                what = "InvalidToken versus a match";
            }
            (Some(El::Ev(oe)), Some(El::It(Item::ErrInvalid { .. }))) => {
                let obs_sel = Some((oe.rule, oracle.pos_of_byte(oe.me.byte)));
                classify_selection(&mut props, &sc, oracle, obs_sel, None);
                add(&mut props, "C07");
                what = "an action ran where nothing matches (InvalidToken expected)";
            }
            (Some(El::Ev(oe)), Some(El::It(Item::Tok { rule: er, end: ee, .. }))) => {
                // expected: a token of a rule without action log; observed: a logging action
                let exp_sel = oracle.pos_of_byte(ee.byte).map(|p| (*er, p));
                let obs_sel = Some((oe.rule, oracle.pos_of_byte(oe.me.byte)));
                classify_selection(&mut props, &sc, oracle, obs_sel, exp_sel);
                what = "an action ran where the token of another rule was expected";
            }
            (Some(El::It(Item::Tok { rule: or, end: oe, .. })), Some(El::Ev(ee))) => {
                let exp_sel = exp_sel_of_ev(ee, oracle);
                let obs_sel = Some((*or, oracle.pos_of_byte(oe.byte)));
                if *or == ee.rule {
                    // the right rule's token came back although its action (log) is missing
                    add(&mut props, "C10");
                } else {
                    classify_selection(&mut props, &sc, oracle, obs_sel, exp_sel);
                }
                what = "a token was returned where an action was expected";
            }
            (Some(El::Ev(_)), Some(El::It(_))) | (Some(El::It(_)), Some(El::Ev(_))) => {
                add(&mut props, "C07");
                add(&mut props, "C10");
                what = "an action and an item are interchanged";
            }
            (None, Some(_)) => {
                add(&mut props, "C05");
                add(&mut props, "C09");
                what = "observed history is shorter";
            }
            (Some(_), None) => {
                add(&mut props, "C05");
                add(&mut props, "C09");
                what = "observed history is longer";
            }
            (None, None) => unreachable!(),
        }
        return Some(Divergence {
            index: i,
            props,
            what: what.to_string(),
            expected: e.map(|e| e.el.show()).unwrap_or_else(|| "<nothing>".into()),
            observed: o.map(|o| o.show()).unwrap_or_else(|| "<nothing>".into()),
        });
    }
    None
}

fn loc_bytes_eq(a: &Loc, b: &Loc) -> bool {
    a.byte == b.byte
}

/// Model-free invariants on one observed history. Returns (property, description) pairs.
pub fn model_free(obs: &Obs, input: &str, input_chars: &[char], locs: &[Loc], text: bool, all_rules_log: bool) -> Vec<(&'static str, String)> {
    let mut out = vec![];
    let n = input_chars.len();
    // byte -> char position map
    let mut byte2pos = std::collections::HashMap::new();
    for (i, l) in locs.iter().enumerate() {
        byte2pos.insert(l.byte, i);
    }
    let check_loc = |l: &Loc, what: &str, out: &mut Vec<(&'static str, String)>| match byte2pos.get(&l.byte) {
        None => out.push(("C06", format!("{}: byte index {} is not a character boundary", what, l.byte))),
        Some(p) => {
            let r = locs[*p];
            if r.line != l.line || r.col != l.col {
                out.push((
                    "C06",
                    format!(
                        "{}: location {}:{}:{} but rescanning the input gives {}:{}:{}",
                        what, l.line, l.col, l.byte, r.line, r.col, r.byte
                    ),
                ));
            }
        }
    };
    // C06: every Loc, spans ordered, text equality
    let mut last_end = 0usize;
    for e in &obs.evs {
        check_loc(&e.ms, "match_loc().0", &mut out);
        check_loc(&e.me, "match_loc().1", &mut out);
        if e.ms.byte > e.me.byte {
            out.push(("C06", format!("match_loc start {} > end {}", e.ms.byte, e.me.byte)));
        }
        if text {
            if let Some(tx) = &e.tx {
                if e.ms.byte <= e.me.byte && e.me.byte <= input.len() && input.is_char_boundary(e.ms.byte) && input.is_char_boundary(e.me.byte) {
                    if &input[e.ms.byte..e.me.byte] != tx.as_str() {
                        out.push(("C06", format!("match_() = {:?} but input[{}..{}] = {:?}", tx, e.ms.byte, e.me.byte, &input[e.ms.byte..e.me.byte])));
                    }
                }
            }
        }
        if let Some((a, b)) = &e.post {
            check_loc(a, "match_loc().0 after reset", &mut out);
            check_loc(b, "match_loc().1 after reset", &mut out);
            if a != b {
                out.push(("C10", "match not empty after reset_match()".to_string()));
            }
        }
        if e.me.byte < last_end {
            out.push(("C06", format!("lexeme end {} before previous lexeme end {}", e.me.byte, last_end)));
        }
        last_end = e.me.byte;
    }
    // a token returned by a logging action carries exactly the match the action last saw
    // (match_loc() after its reset_match(), if it reset; otherwise match_loc() at entry)
    {
        let mut prev = 0usize;
        for (i, it) in obs.items.iter().enumerate() {
            let end_ix = obs.item_ev_end.get(i).copied().unwrap_or(obs.evs.len());
            if let Item::Tok { start, rule, end, .. } = it {
                if end_ix > prev {
                    let e = &obs.evs[end_ix - 1];
                    if e.rule == *rule {
                        let (xs, xe) = e.post.unwrap_or((e.ms, e.me));
                        if (*start, *end) != (xs, xe) {
                            let d = format!(
                                "token span {}..{} differs from the match the returning action saw ({}..{})",
                                start.byte, end.byte, xs.byte, xe.byte
                            );
                            out.push(("C06", d.clone()));
                            out.push(("C10", d));
                        }
                    }
                }
            }
            prev = end_ix;
        }
    }
    let mut prev_tok_end = 0usize;
    for it in &obs.items {
        match it {
            Item::Tok { start, end, .. } => {
                check_loc(start, "token start", &mut out);
                check_loc(end, "token end", &mut out);
                if start.byte > end.byte {
                    out.push(("C06", format!("token start {} > end {}", start.byte, end.byte)));
                }
                if start.byte < prev_tok_end {
                    out.push(("C06", format!("token starts at {} before previous token end {}", start.byte, prev_tok_end)));
                }
                prev_tok_end = end.byte;
            }
            Item::ErrInvalid { loc } | Item::ErrCustom { loc, .. } => {
                check_loc(loc, "error location", &mut out);
            }
        }
    }
    // C05: fused stream
    if obs.after_none_some > 0 {
        out.push(("C05", format!("next() returned Some {} time(s) after returning None", obs.after_none_some)));
    }
    // C05: conservation (only when every rule logs, so that every match is visible)
    if all_rules_log && obs.ended && obs.panic.is_none() {
        let last_is_err = matches!(obs.items.last(), Some(Item::ErrInvalid { .. }));
        let any_err = obs.items.iter().any(|i| matches!(i, Item::ErrInvalid { .. }));
        if !last_is_err {
            // position reached = end of last event after the last InvalidToken... approximated by
            // the maximum event end; if no error occurred at all the events must tile the input
            let reached = obs.evs.iter().map(|e| e.me.byte).max().unwrap_or(0);
            if !any_err && reached < input.len() {
                out.push((
                    "C05",
                    format!("stream ended with None after byte {} of {} without any error: input dropped", reached, input.len()),
                ));
            }
        }
        if !any_err {
            // without errors, successive action matches tile the input: each starts at or before the
            // previous end (accumulation) and never after it
            let mut cursor = 0usize;
            for e in &obs.evs {
                if e.ms.byte > cursor {
                    out.push(("C05", format!("characters {}..{} were skipped without match or error", cursor, e.ms.byte)));
                    break;
                }
                cursor = e.me.byte;
            }
        }
    }
    // C09: counts
    if obs.overflow_items || obs.items.len() > n + 1 {
        out.push(("C09", format!("{} items for {} characters", obs.items.len(), n)));
    }
    if obs.actions as usize > n + 1 {
        out.push(("C09", format!("{} actions for {} characters", obs.actions, n)));
    }
    if let Some(p) = &obs.panic {
        out.push(("C09", format!("panic: {}", p)));
    }
    out
}
