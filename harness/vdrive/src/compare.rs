//! Comparison of an observed history with the reference history and classification of the first
//! divergence into the properties it refutes; plus model-free invariants.

use vmodel::reflex::{Ev, EvMeta, History, Item, Loc};

#[derive(Clone, Debug, Default)]
pub struct Obs {
    pub items: Vec<Item>,
    pub evs: Vec<Ev>,
    pub item_ev_end: Vec<usize>,
    pub ended: bool,
    pub after_none_some: usize,
    pub panic: Option<String>,
    pub reads: u64,
    pub actions: u32,
    pub overflow_items: bool,
}

#[derive(Clone, Debug, PartialEq)]
pub enum El {
    Ev(Ev),
    It(Item),
    End,
}

impl El {
    pub fn show(&self) -> String {
        match self {
            El::Ev(e) => format!(
                "action(rule={} match={}:{}:{}..{}:{}:{} peek={:?} text={:?} cnt={} post={:?})",
                e.rule, e.ms.line, e.ms.col, e.ms.byte, e.me.line, e.me.col, e.me.byte, e.pk, e.tx, e.cnt,
                e.post.map(|(a, b)| (a.byte, b.byte))
            ),
            El::It(Item::Tok { start, rule, val, end }) => format!(
                "Ok({}:{}:{}, Tok({},{}), {}:{}:{})",
                start.line, start.col, start.byte, rule, val, end.line, end.col, end.byte
            ),
            El::It(Item::ErrInvalid { loc }) => format!("Err(InvalidToken@{}:{}:{})", loc.line, loc.col, loc.byte),
            El::It(Item::ErrCustom { loc, payload }) => {
                format!("Err(Custom({})@{}:{}:{})", payload, loc.line, loc.col, loc.byte)
            }
            El::End => "None".to_string(),
        }
    }
}

pub fn obs_elements(o: &Obs) -> Vec<El> {
    let mut v = vec![];
    let mut prev = 0;
    for (i, it) in o.items.iter().enumerate() {
        let end = o.item_ev_end.get(i).copied().unwrap_or(o.evs.len());
        for e in &o.evs[prev..end] {
            v.push(El::Ev(norm_ev(e)));
        }
        prev = end;
        v.push(El::It(it.clone()));
    }
    for e in &o.evs[prev..] {
        v.push(El::Ev(norm_ev(e)));
    }
    if o.ended {
        v.push(El::End);
    }
    v
}

fn norm_ev(e: &Ev) -> Ev {
    let mut e = e.clone();
    e.call = 0;
    e
}

/// Expected elements with the reference's meta information and the "after failure" context.
pub struct ExpEl {
    /// for El::End: end of input had already been acted upon earlier
    pub end_already_done: bool,
    pub el: El,
    pub meta: Option<EvMeta>,
    /// an InvalidToken error occurred earlier and no action has switched rule sets since
    pub after_failure: bool,
    pub set_before: usize,
}

pub fn exp_elements(h: &History) -> Vec<ExpEl> {
    let mut v = vec![];
    let mut prev = 0;
    let mut after_failure = false;
    let mut set_before = 0usize;
    let push_evs = |v: &mut Vec<ExpEl>, from: usize, to: usize, after_failure: &mut bool, set_before: &mut usize| {
        for i in from..to {
            let m = &h.meta[i];
            *set_before = m.set;
            if m.logged {
                v.push(ExpEl {
                    end_already_done: false,
                    el: El::Ev(norm_ev(&h.evs[i])),
                    meta: Some(m.clone()),
                    after_failure: *after_failure,
                    set_before: m.set,
                });
            }
            if m.outcome.contains('s') {
                *after_failure = false;
            }
        }
    };
    for (i, it) in h.items.iter().enumerate() {
        let end = h.item_ev_end[i];
        push_evs(&mut v, prev, end, &mut after_failure, &mut set_before);
        prev = end;
        v.push(ExpEl {
            end_already_done: false,
            el: El::It(it.clone()),
            meta: None,
            after_failure,
            set_before,
        });
        if matches!(it, Item::ErrInvalid { .. }) {
            after_failure = true;
            set_before = 0;
        }
    }
    push_evs(&mut v, prev, h.evs.len(), &mut after_failure, &mut set_before);
    if h.final_done {
        v.push(ExpEl {
            end_already_done: h.end_kind == 2,
            el: El::End,
            meta: None,
            after_failure,
            set_before,
        });
    }
    v
}

#[derive(Clone, Debug)]
pub struct Divergence {
    pub index: usize,
    pub props: Vec<&'static str>,
    pub what: String,
    pub expected: String,
    pub observed: String,
}

fn loc_bytes_eq(a: &Loc, b: &Loc) -> bool {
    a.byte == b.byte
}

pub struct SpecInfo {
    /// rule id -> rule set index
    pub rule_set: Vec<usize>,
    /// per set: does any rule carry a right context / contain `$`
    pub set_has_ctx: Vec<bool>,
    pub set_has_eoi: Vec<bool>,
    pub n_chars: usize,
    pub n_bytes: usize,
}

fn add(props: &mut Vec<&'static str>, p: &'static str) {
    if !props.contains(&p) {
        props.push(p);
    }
}

/// Compare; return the first divergence (None = histories agree).
pub fn first_divergence(obs: &[El], exp: &[ExpEl], info: &SpecInfo) -> Option<Divergence> {
    let n = obs.len().max(exp.len());
    for i in 0..n {
        let o = obs.get(i);
        let e = exp.get(i);
        match (o, e) {
            (Some(o), Some(e)) if *o == e.el => continue,
            _ => {}
        }
        let mut props: Vec<&'static str> = vec![];
        let what;
        let after_failure = e.map(|e| e.after_failure).unwrap_or_else(|| exp.last().map(|l| l.after_failure).unwrap_or(false));
        let set_before = e.map(|e| e.set_before).unwrap_or(0);
        let scan_props = |props: &mut Vec<&'static str>, obs_rule: Option<u32>, at_eoi: bool| {
            if after_failure {
                add(props, "C08");
                // re-entering a rule set without a switch also breaks rule-set isolation
                if let Some(r) = obs_rule {
                    if let Some(s) = info.rule_set.get(r as usize) {
                        if *s != set_before {
                            add(props, "C03");
                        }
                    }
                }
                return;
            }
            if let Some(r) = obs_rule {
                if let Some(s) = info.rule_set.get(r as usize) {
                    if *s != set_before {
                        add(props, "C03");
                        return;
                    }
                }
            }
            add(props, "C01");
            add(props, "C02");
            if info.set_has_ctx.get(set_before).copied().unwrap_or(false) {
                add(props, "C04");
            }
            if at_eoi || info.set_has_eoi.get(set_before).copied().unwrap_or(false) {
                add(props, "C05");
            }
        };
        match (o, e.map(|e| &e.el)) {
            (Some(El::Ev(oe)), Some(El::Ev(ee))) => {
                if oe.rule == ee.rule && oe.me.byte == ee.me.byte {
                    // same lexeme selected; some other field differs
                    if oe.ms.byte != ee.ms.byte {
                        if after_failure {
                            add(&mut props, "C08");
                        } else {
                            add(&mut props, "C10");
                        }
                        what = "match start (accumulated span) differs";
                    } else if oe.ms != ee.ms || oe.me != ee.me {
                        add(&mut props, "C06");
                        what = "line/column of match_loc() differs";
                    } else if oe.pk != ee.pk {
                        add(&mut props, "C10");
                        what = "peek() differs";
                    } else if oe.tx != ee.tx {
                        add(&mut props, "C10");
                        add(&mut props, "C06");
                        what = "match_() text differs";
                    } else if oe.cnt != ee.cnt {
                        if after_failure {
                            add(&mut props, "C08");
                        } else {
                            add(&mut props, "C10");
                        }
                        what = "user state (action counter) differs";
                    } else {
                        add(&mut props, "C10");
                        what = "match_loc() after reset_match() differs";
                    }
                } else {
                    let at_eoi = oe.me.byte == info.n_bytes || ee.me.byte == info.n_bytes;
                    scan_props(&mut props, Some(oe.rule), at_eoi);
                    what = "a different (rule, lexeme) was selected";
                }
            }
            (Some(El::It(oi)), Some(El::It(ei))) => match (oi, ei) {
                (
                    Item::Tok { start: os, rule: or, val: ov, end: oe },
                    Item::Tok { start: es, rule: er, val: ev, end: ee },
                ) => {
                    if or != er || ov != ev {
                        // a token from a rule that does not log (`re = t`): selection differs
                        scan_props(&mut props, Some(*or), oe.byte == info.n_bytes || ee.byte == info.n_bytes);
                        add(&mut props, "C10");
                        what = "token value differs";
                    } else if !loc_bytes_eq(os, es) || !loc_bytes_eq(oe, ee) {
                        if oe.byte != ee.byte {
                            scan_props(&mut props, Some(*or), oe.byte == info.n_bytes || ee.byte == info.n_bytes);
                        }
                        add(&mut props, "C10");
                        what = "token span differs";
                    } else {
                        add(&mut props, "C06");
                        what = "line/column of token span differs";
                    }
                }
                (Item::ErrInvalid { loc: ol }, Item::ErrInvalid { loc: el }) => {
                    if ol.byte != el.byte {
                        add(&mut props, "C07");
                        what = "InvalidToken location differs";
                    } else {
                        add(&mut props, "C06");
                        add(&mut props, "C07");
                        what = "line/column of InvalidToken location differs";
                    }
                }
                (Item::ErrCustom { loc: ol, payload: op }, Item::ErrCustom { loc: el, payload: ep }) => {
                    add(&mut props, "C07");
                    if op != ep {
                        what = "Custom error payload differs";
                    } else if ol.byte != el.byte {
                        what = "Custom error location differs";
                    } else {
                        add(&mut props, "C06");
                        what = "line/column of Custom error location differs";
                    }
                }
                (Item::ErrInvalid { .. }, _) | (_, Item::ErrInvalid { .. }) => {
                    add(&mut props, "C07");
                    scan_props(&mut props, None, false);
                    what = "InvalidToken on one side only";
                }
                _ => {
                    add(&mut props, "C07");
                    add(&mut props, "C10");
                    what = "item kinds differ";
                }
            },
            (Some(El::End), Some(_)) | (Some(_), Some(El::End)) | (None, Some(El::End)) | (Some(El::End), None) => {
                let already = e.map(|e| e.end_already_done).unwrap_or(false);
                if already {
                    // end of input had been acted upon (by a `$` match or an error that saw it):
                    // every further call must give None
                    add(&mut props, "C05");
                } else if after_failure {
                    // expected None in Init but the lexer is somewhere else (or vice versa): the
                    // failure did not (durably) reset the rule set
                    add(&mut props, "C08");
                    add(&mut props, "C03");
                } else {
                    add(&mut props, "C05");
                }
                what = "stream ends at a different point";
            }
            (Some(El::It(Item::ErrInvalid { .. })), Some(El::Ev(_))) | (Some(El::Ev(_)), Some(El::It(Item::ErrInvalid { .. }))) => {
                add(&mut props, "C07");
                let r = match o {
                    Some(El::Ev(oe)) => Some(oe.rule),
                    _ => None,
                };
                scan_props(&mut props, r, false);
                if r.is_some() {
                    // an action ran although no rule matches here: it belongs to an abandoned
                    // (stale) candidate
                    add(&mut props, "C10");
                    what = "an action ran where nothing matches (InvalidToken expected)";
                } else {
                    what = "InvalidToken versus a match";
                }
            }
            (Some(El::Ev(oe)), Some(El::It(_))) => {
                scan_props(&mut props, Some(oe.rule), false);
                add(&mut props, "C10");
                what = "an action ran where an item was expected";
            }
            (Some(El::It(_)), Some(El::Ev(_))) => {
                scan_props(&mut props, None, false);
                add(&mut props, "C10");
                what = "an item was returned where an action was expected";
            }
            (None, Some(_)) => {
                add(&mut props, "C05");
                add(&mut props, "C09");
                what = "observed history is shorter";
            }
            (Some(_), None) => {
                add(&mut props, "C05");
                add(&mut props, "C09");
                what = "observed history is longer";
            }
            (None, None) => unreachable!(),
        }
        return Some(Divergence {
            index: i,
            props,
            what: what.to_string(),
            expected: e.map(|e| e.el.show()).unwrap_or_else(|| "<nothing>".into()),
            observed: o.map(|o| o.show()).unwrap_or_else(|| "<nothing>".into()),
        });
    }
    None
}

/// Model-free invariants on one observed history. Returns (property, description) pairs.
pub fn model_free(obs: &Obs, input: &str, input_chars: &[char], locs: &[Loc], text: bool, all_rules_log: bool) -> Vec<(&'static str, String)> {
    let mut out = vec![];
    let n = input_chars.len();
    // byte -> char position map
    let mut byte2pos = std::collections::HashMap::new();
    for (i, l) in locs.iter().enumerate() {
        byte2pos.insert(l.byte, i);
    }
    let check_loc = |l: &Loc, what: &str, out: &mut Vec<(&'static str, String)>| match byte2pos.get(&l.byte) {
        None => out.push(("C06", format!("{}: byte index {} is not a character boundary", what, l.byte))),
        Some(p) => {
            let r = locs[*p];
            if r.line != l.line || r.col != l.col {
                out.push((
                    "C06",
                    format!(
                        "{}: location {}:{}:{} but rescanning the input gives {}:{}:{}",
                        what, l.line, l.col, l.byte, r.line, r.col, r.byte
                    ),
                ));
            }
        }
    };
    // C06: every Loc, spans ordered, text equality
    let mut last_end = 0usize;
    for e in &obs.evs {
        check_loc(&e.ms, "match_loc().0", &mut out);
        check_loc(&e.me, "match_loc().1", &mut out);
        if e.ms.byte > e.me.byte {
            out.push(("C06", format!("match_loc start {} > end {}", e.ms.byte, e.me.byte)));
        }
        if text {
            if let Some(tx) = &e.tx {
                if e.ms.byte <= e.me.byte && e.me.byte <= input.len() && input.is_char_boundary(e.ms.byte) && input.is_char_boundary(e.me.byte) {
                    if &input[e.ms.byte..e.me.byte] != tx.as_str() {
                        out.push(("C06", format!("match_() = {:?} but input[{}..{}] = {:?}", tx, e.ms.byte, e.me.byte, &input[e.ms.byte..e.me.byte])));
                    }
                }
            }
        }
        if let Some((a, b)) = &e.post {
            check_loc(a, "match_loc().0 after reset", &mut out);
            check_loc(b, "match_loc().1 after reset", &mut out);
            if a != b {
                out.push(("C10", "match not empty after reset_match()".to_string()));
            }
        }
        if e.me.byte < last_end {
            out.push(("C06", format!("lexeme end {} before previous lexeme end {}", e.me.byte, last_end)));
        }
        last_end = e.me.byte;
    }
    // a token returned by a logging action carries exactly the match the action last saw
    // (match_loc() after its reset_match(), if it reset; otherwise match_loc() at entry)
    {
        let mut prev = 0usize;
        for (i, it) in obs.items.iter().enumerate() {
            let end_ix = obs.item_ev_end.get(i).copied().unwrap_or(obs.evs.len());
            if let Item::Tok { start, rule, end, .. } = it {
                if end_ix > prev {
                    let e = &obs.evs[end_ix - 1];
                    if e.rule == *rule {
                        let (xs, xe) = e.post.unwrap_or((e.ms, e.me));
                        if (*start, *end) != (xs, xe) {
                            let d = format!(
                                "token span {}..{} differs from the match the returning action saw ({}..{})",
                                start.byte, end.byte, xs.byte, xe.byte
                            );
                            out.push(("C06", d.clone()));
                            out.push(("C10", d));
                        }
                    }
                }
            }
            prev = end_ix;
        }
    }
    let mut prev_tok_end = 0usize;
    for it in &obs.items {
        match it {
            Item::Tok { start, end, .. } => {
                check_loc(start, "token start", &mut out);
                check_loc(end, "token end", &mut out);
                if start.byte > end.byte {
                    out.push(("C06", format!("token start {} > end {}", start.byte, end.byte)));
                }
                if start.byte < prev_tok_end {
                    out.push(("C06", format!("token starts at {} before previous token end {}", start.byte, prev_tok_end)));
                }
                prev_tok_end = end.byte;
            }
            Item::ErrInvalid { loc } | Item::ErrCustom { loc, .. } => {
                check_loc(loc, "error location", &mut out);
            }
        }
    }
    // C05: fused stream
    if obs.after_none_some > 0 {
        out.push(("C05", format!("next() returned Some {} time(s) after returning None", obs.after_none_some)));
    }
    // C05: conservation (only when every rule logs, so that every match is visible)
    if all_rules_log && obs.ended && obs.panic.is_none() {
        let last_is_err = matches!(obs.items.last(), Some(Item::ErrInvalid { .. }));
        let any_err = obs.items.iter().any(|i| matches!(i, Item::ErrInvalid { .. }));
        if !last_is_err {
            // position reached = end of last event after the last InvalidToken... approximated by
            // the maximum event end; if no error occurred at all the events must tile the input
            let reached = obs.evs.iter().map(|e| e.me.byte).max().unwrap_or(0);
            if !any_err && reached < input.len() {
                out.push((
                    "C05",
                    format!("stream ended with None after byte {} of {} without any error: input dropped", reached, input.len()),
                ));
            }
        }
        if !any_err {
            // without errors, successive action matches tile the input: each starts at or before the
            // previous end (accumulation) and never after it
            let mut cursor = 0usize;
            for e in &obs.evs {
                if e.ms.byte > cursor {
                    out.push(("C05", format!("characters {}..{} were skipped without match or error", cursor, e.ms.byte)));
                    break;
                }
                cursor = e.me.byte;
            }
        }
    }
    // C09: counts
    if obs.overflow_items || obs.items.len() > n + 1 {
        out.push(("C09", format!("{} items for {} characters", obs.items.len(), n)));
    }
    if obs.actions as usize > n + 1 {
        out.push(("C09", format!("{} actions for {} characters", obs.actions, n)));
    }
    if let Some(p) = &obs.panic {
        out.push(("C09", format!("panic: {}", p)));
    }
    out
}
