//! Minimal JSON value + writer (no external crates).

use std::collections::BTreeMap;

#[derive(Clone, Debug, PartialEq)]
pub enum J {
    Null,
    Bool(bool),
    Int(i64),
    Num(f64),
    Str(String),
    Arr(Vec<J>),
    Obj(BTreeMap<String, J>),
}

impl J {
    pub fn obj() -> J {
        J::Obj(BTreeMap::new())
    }
    pub fn s(x: &str) -> J {
        J::Str(x.to_string())
    }
    pub fn i(x: usize) -> J {
        J::Int(x as i64)
    }
    pub fn set(&mut self, k: &str, v: J) -> &mut J {
        if let J::Obj(m) = self {
            m.insert(k.to_string(), v);
        }
        self
    }
    pub fn with(mut self, k: &str, v: J) -> J {
        self.set(k, v);
        self
    }
    pub fn to_string(&self) -> String {
        let mut s = String::new();
        self.write(&mut s);
        s
    }
    fn write(&self, out: &mut String) {
        match self {
            J::Null => out.push_str("null"),
            J::Bool(b) => out.push_str(if *b { "true" } else { "false" }),
            J::Int(i) => out.push_str(&i.to_string()),
            J::Num(f) => {
                if f.is_finite() {
                    out.push_str(&format!("{}", f))
                } else {
                    out.push_str("null")
                }
            }
            J::Str(s) => write_str(s, out),
            J::Arr(xs) => {
                out.push('[');
                for (i, x) in xs.iter().enumerate() {
                    if i > 0 {
                        out.push(',');
                    }
                    x.write(out);
                }
                out.push(']');
            }
            J::Obj(m) => {
                out.push('{');
                for (i, (k, v)) in m.iter().enumerate() {
                    if i > 0 {
                        out.push(',');
                    }
                    write_str(k, out);
                    out.push(':');
                    v.write(out);
                }
                out.push('}');
            }
        }
    }
}

fn write_str(s: &str, out: &mut String) {
    out.push('"');
    for c in s.chars() {
        match c {
            '"' => out.push_str("\\\""),
            '\\' => out.push_str("\\\\"),
            '\n' => out.push_str("\\n"),
            '\r' => out.push_str("\\r"),
            '\t' => out.push_str("\\t"),
            c if (c as u32) < 0x20 => out.push_str(&format!("\\u{:04x}", c as u32)),
            c => out.push(c),
        }
    }
    out.push('"');
}
