//! Lexer definition syntax tree ("spec") used by generators, printers and the reference model,
//! with a small s-expression (de)serialiser for replay files.

use std::collections::BTreeMap;

#[derive(Clone, Debug, PartialEq, Eq, Hash, PartialOrd, Ord)]
pub enum SetItem {
    C(char),
    R(char, char),
}

#[derive(Clone, Debug, PartialEq, Eq, Hash, PartialOrd, Ord)]
pub enum Re {
    Chr(char),
    Str(Vec<char>),
    Set(Vec<SetItem>),
    Any,
    Eoi,
    Var(String),
    Builtin(String),
    Star(Box<Re>),
    Plus(Box<Re>),
    Opt(Box<Re>),
    Cat(Box<Re>, Box<Re>),
    Alt(Box<Re>, Box<Re>),
    Diff(Box<Re>, Box<Re>),
}

impl Re {
    pub fn star(r: Re) -> Re {
        Re::Star(Box::new(r))
    }
    pub fn plus(r: Re) -> Re {
        Re::Plus(Box::new(r))
    }
    pub fn opt(r: Re) -> Re {
        Re::Opt(Box::new(r))
    }
    pub fn cat(a: Re, b: Re) -> Re {
        Re::Cat(Box::new(a), Box::new(b))
    }
    pub fn alt(a: Re, b: Re) -> Re {
        Re::Alt(Box::new(a), Box::new(b))
    }
    pub fn diff(a: Re, b: Re) -> Re {
        Re::Diff(Box::new(a), Box::new(b))
    }
    pub fn str(s: &str) -> Re {
        Re::Str(s.chars().collect())
    }
    pub fn var(s: &str) -> Re {
        Re::Var(s.to_string())
    }
    pub fn bi(s: &str) -> Re {
        Re::Builtin(s.to_string())
    }
    pub fn range(a: char, b: char) -> Re {
        Re::Set(vec![SetItem::R(a, b)])
    }

    /// Number of operator nodes.
    pub fn size(&self) -> usize {
        match self {
            Re::Star(a) | Re::Plus(a) | Re::Opt(a) => 1 + a.size(),
            Re::Cat(a, b) | Re::Alt(a, b) | Re::Diff(a, b) => 1 + a.size() + b.size(),
            _ => 0,
        }
    }

    pub fn visit<F: FnMut(&Re)>(&self, f: &mut F) {
        f(self);
        match self {
            Re::Star(a) | Re::Plus(a) | Re::Opt(a) => a.visit(f),
            Re::Cat(a, b) | Re::Alt(a, b) | Re::Diff(a, b) => {
                a.visit(f);
                b.visit(f);
            }
            _ => {}
        }
    }

    /// Short skeleton of operator shape (for distinct-shape counting).
    pub fn skeleton(&self) -> String {
        match self {
            Re::Chr(_) => "c".into(),
            Re::Str(_) => "s".into(),
            Re::Set(_) => "S".into(),
            Re::Any => "_".into(),
            Re::Eoi => "$".into(),
            Re::Var(_) => "v".into(),
            Re::Builtin(_) => "B".into(),
            Re::Star(a) => format!("*({})", a.skeleton()),
            Re::Plus(a) => format!("+({})", a.skeleton()),
            Re::Opt(a) => format!("?({})", a.skeleton()),
            Re::Cat(a, b) => format!(".({},{})", a.skeleton(), b.skeleton()),
            Re::Alt(a, b) => format!("|({},{})", a.skeleton(), b.skeleton()),
            Re::Diff(a, b) => format!("#({},{})", a.skeleton(), b.skeleton()),
        }
    }
}

#[derive(Clone, Debug, PartialEq, Eq, Hash)]
pub enum Guard {
    Always,
    PeekIs(char),
    PeekNone,
    /// byte length of current match (match_loc) modulo 2 equals the value
    LenParity(u8),
    /// number of actions run before this one modulo 2 equals the value
    CounterParity(u8),
}

#[derive(Clone, Debug, PartialEq, Eq, Hash)]
pub enum Fin {
    Continue,
    Return(u32),
    Err(u32),
}

#[derive(Clone, Debug, PartialEq, Eq, Hash)]
pub struct Outcome {
    pub reset: bool,
    /// name of the rule set switched to
    pub switch: Option<String>,
    pub fin: Fin,
}

impl Outcome {
    pub fn ret(v: u32) -> Outcome {
        Outcome {
            reset: false,
            switch: None,
            fin: Fin::Return(v),
        }
    }
    pub fn cont() -> Outcome {
        Outcome {
            reset: false,
            switch: None,
            fin: Fin::Continue,
        }
    }
    pub fn kind(&self) -> String {
        format!(
            "{}{}{}",
            if self.reset { "r" } else { "" },
            if self.switch.is_some() { "s" } else { "" },
            match self.fin {
                Fin::Continue => "C",
                Fin::Return(_) => "R",
                Fin::Err(_) => "E",
            }
        )
    }
}

#[derive(Clone, Debug, PartialEq, Eq, Hash)]
pub enum Action {
    /// `re,`
    Skip,
    /// `re = Tok(id, v),`
    Simple(u32),
    /// `re => |lexer| {...}`
    Do(Vec<(Guard, Outcome)>),
    /// `re =? |lexer| {...}`
    Try(Vec<(Guard, Outcome)>),
}

impl Action {
    pub fn logs(&self) -> bool {
        matches!(self, Action::Do(_) | Action::Try(_))
    }
}

#[derive(Clone, Debug, PartialEq, Eq, Hash)]
pub struct Rule {
    pub id: u32,
    pub re: Re,
    pub ctx: Option<Re>,
    pub act: Action,
}

#[derive(Clone, Debug, PartialEq, Eq, Hash)]
pub enum Entry {
    Let(String, Re),
    Rule(Rule),
}

#[derive(Clone, Debug, PartialEq, Eq, Hash)]
pub struct RuleSet {
    pub name: String,
    /// top-level `let`s written right before this rule set (visible in this and every later rule
    /// set, not in earlier ones)
    pub pre_lets: Vec<(String, Re)>,
    pub entries: Vec<Entry>,
}

impl RuleSet {
    pub fn rules(&self) -> impl Iterator<Item = &Rule> {
        self.entries.iter().filter_map(|e| match e {
            Entry::Rule(r) => Some(r),
            _ => None,
        })
    }
}

#[derive(Clone, Debug, PartialEq, Eq, Hash)]
pub struct Spec {
    /// `type Error = u32;` present (required for `=?` rules)
    pub error_type: bool,
    /// false: rules are written at the top level without `rule Init { }` (then exactly one set)
    pub named: bool,
    /// top-level lets (printed before the first rule set)
    pub lets: Vec<(String, Re)>,
    pub sets: Vec<RuleSet>,
}

impl Spec {
    pub fn single(rules: Vec<Rule>) -> Spec {
        Spec {
            error_type: rules.iter().any(|r| matches!(r.act, Action::Try(_))),
            named: false,
            lets: vec![],
            sets: vec![RuleSet {
                name: "Init".into(),
                pre_lets: vec![],
                entries: rules.into_iter().map(Entry::Rule).collect(),
            }],
        }
    }

    pub fn all_rules(&self) -> impl Iterator<Item = (usize, &Rule)> {
        self.sets
            .iter()
            .enumerate()
            .flat_map(|(i, s)| s.rules().map(move |r| (i, r)))
    }

    pub fn n_rules(&self) -> usize {
        self.all_rules().count()
    }

    pub fn set_index(&self, name: &str) -> Option<usize> {
        self.sets.iter().position(|s| s.name == name)
    }

    /// Assign sequential rule ids in order of appearance.
    pub fn renumber(&mut self) {
        let mut n = 0;
        for s in self.sets.iter_mut() {
            for e in s.entries.iter_mut() {
                if let Entry::Rule(r) = e {
                    r.id = n;
                    n += 1;
                }
            }
        }
    }

    /// Bindings visible in rule set `set` at entry index `upto` (exclusive).
    pub fn bindings_at(&self, set: usize, upto: usize) -> BTreeMap<String, Re> {
        let mut m = BTreeMap::new();
        for (n, r) in &self.lets {
            m.insert(n.clone(), r.clone());
        }
        for s in self.sets.iter().take(set + 1) {
            for (n, r) in &s.pre_lets {
                m.insert(n.clone(), r.clone());
            }
        }
        for e in self.sets[set].entries.iter().take(upto) {
            if let Entry::Let(n, r) = e {
                m.insert(n.clone(), r.clone());
            }
        }
        m
    }
}

// ---------------------------------------------------------------------------------------------
// s-expressions

#[derive(Clone, Debug, PartialEq, Eq)]
pub enum Sx {
    A(String),
    L(Vec<Sx>),
}

impl Sx {
    fn a(s: &str) -> Sx {
        Sx::A(s.to_string())
    }
    fn n(v: u64) -> Sx {
        Sx::A(v.to_string())
    }
    pub fn to_string(&self) -> String {
        let mut out = String::new();
        self.write(&mut out);
        out
    }
    fn write(&self, out: &mut String) {
        match self {
            Sx::A(s) => out.push_str(s),
            Sx::L(xs) => {
                out.push('(');
                for (i, x) in xs.iter().enumerate() {
                    if i > 0 {
                        out.push(' ');
                    }
                    x.write(out);
                }
                out.push(')');
            }
        }
    }
    pub fn parse(s: &str) -> Result<Sx, String> {
        let toks: Vec<String> = {
            let mut v = vec![];
            let mut cur = String::new();
            for c in s.chars() {
                match c {
                    '(' | ')' => {
                        if !cur.is_empty() {
                            v.push(std::mem::take(&mut cur));
                        }
                        v.push(c.to_string());
                    }
                    c if c.is_whitespace() => {
                        if !cur.is_empty() {
                            v.push(std::mem::take(&mut cur));
                        }
                    }
                    c => cur.push(c),
                }
            }
            if !cur.is_empty() {
                v.push(cur);
            }
            v
        };
        let mut pos = 0;
        let r = Sx::parse_at(&toks, &mut pos)?;
        if pos != toks.len() {
            return Err("trailing tokens".into());
        }
        Ok(r)
    }
    fn parse_at(toks: &[String], pos: &mut usize) -> Result<Sx, String> {
        if *pos >= toks.len() {
            return Err("unexpected end".into());
        }
        let t = &toks[*pos];
        *pos += 1;
        if t == "(" {
            let mut xs = vec![];
            loop {
                if *pos >= toks.len() {
                    return Err("unclosed (".into());
                }
                if toks[*pos] == ")" {
                    *pos += 1;
                    return Ok(Sx::L(xs));
                }
                xs.push(Sx::parse_at(toks, pos)?);
            }
        } else if t == ")" {
            Err("unexpected )".into())
        } else {
            Ok(Sx::A(t.clone()))
        }
    }
    fn atom(&self) -> Result<&str, String> {
        match self {
            Sx::A(s) => Ok(s),
            _ => Err(format!("expected atom, got {}", self.to_string())),
        }
    }
    fn num(&self) -> Result<u64, String> {
        self.atom()?.parse::<u64>().map_err(|e| e.to_string())
    }
    fn list(&self) -> Result<&[Sx], String> {
        match self {
            Sx::L(xs) => Ok(xs),
            _ => Err(format!("expected list, got {}", self.to_string())),
        }
    }
}

fn ch(v: u64) -> Result<char, String> {
    char::from_u32(v as u32).ok_or_else(|| format!("bad scalar {}", v))
}

impl Re {
    pub fn to_sx(&self) -> Sx {
        match self {
            Re::Chr(c) => Sx::L(vec![Sx::a("chr"), Sx::n(*c as u64)]),
            Re::Str(cs) => {
                let mut v = vec![Sx::a("str")];
                v.extend(cs.iter().map(|c| Sx::n(*c as u64)));
                Sx::L(v)
            }
            Re::Set(items) => {
                let mut v = vec![Sx::a("set")];
                for it in items {
                    v.push(match it {
                        SetItem::C(c) => Sx::L(vec![Sx::a("c"), Sx::n(*c as u64)]),
                        SetItem::R(a, b) => {
                            Sx::L(vec![Sx::a("r"), Sx::n(*a as u64), Sx::n(*b as u64)])
                        }
                    });
                }
                Sx::L(v)
            }
            Re::Any => Sx::a("any"),
            Re::Eoi => Sx::a("eoi"),
            Re::Var(x) => Sx::L(vec![Sx::a("var"), Sx::a(x)]),
            Re::Builtin(x) => Sx::L(vec![Sx::a("bi"), Sx::a(x)]),
            Re::Star(a) => Sx::L(vec![Sx::a("star"), a.to_sx()]),
            Re::Plus(a) => Sx::L(vec![Sx::a("plus"), a.to_sx()]),
            Re::Opt(a) => Sx::L(vec![Sx::a("opt"), a.to_sx()]),
            Re::Cat(a, b) => Sx::L(vec![Sx::a("cat"), a.to_sx(), b.to_sx()]),
            Re::Alt(a, b) => Sx::L(vec![Sx::a("alt"), a.to_sx(), b.to_sx()]),
            Re::Diff(a, b) => Sx::L(vec![Sx::a("diff"), a.to_sx(), b.to_sx()]),
        }
    }

    pub fn from_sx(sx: &Sx) -> Result<Re, String> {
        match sx {
            Sx::A(s) if s == "any" => Ok(Re::Any),
            Sx::A(s) if s == "eoi" => Ok(Re::Eoi),
            Sx::A(s) => Err(format!("bad regex atom {}", s)),
            Sx::L(xs) => {
                let head = xs.first().ok_or("empty list")?.atom()?;
                let un = |f: fn(Re) -> Re| -> Result<Re, String> {
                    Ok(f(Re::from_sx(xs.get(1).ok_or("arity")?)?))
                };
                let bin = |f: fn(Re, Re) -> Re| -> Result<Re, String> {
                    Ok(f(
                        Re::from_sx(xs.get(1).ok_or("arity")?)?,
                        Re::from_sx(xs.get(2).ok_or("arity")?)?,
                    ))
                };
                match head {
                    "chr" => Ok(Re::Chr(ch(xs.get(1).ok_or("arity")?.num()?)?)),
                    "str" => {
                        let mut cs = vec![];
                        for x in &xs[1..] {
                            cs.push(ch(x.num()?)?);
                        }
                        Ok(Re::Str(cs))
                    }
                    "set" => {
                        let mut items = vec![];
                        for x in &xs[1..] {
                            let l = x.list()?;
                            match l[0].atom()? {
                                "c" => items.push(SetItem::C(ch(l[1].num()?)?)),
                                "r" => items.push(SetItem::R(ch(l[1].num()?)?, ch(l[2].num()?)?)),
                                o => return Err(format!("bad set item {}", o)),
                            }
                        }
                        Ok(Re::Set(items))
                    }
                    "var" => Ok(Re::Var(xs[1].atom()?.to_string())),
                    "bi" => Ok(Re::Builtin(xs[1].atom()?.to_string())),
                    "star" => un(Re::star),
                    "plus" => un(Re::plus),
                    "opt" => un(Re::opt),
                    "cat" => bin(Re::cat),
                    "alt" => bin(Re::alt),
                    "diff" => bin(Re::diff),
                    o => Err(format!("bad regex head {}", o)),
                }
            }
        }
    }
}

fn guard_sx(g: &Guard) -> Sx {
    match g {
        Guard::Always => Sx::a("always"),
        Guard::PeekIs(c) => Sx::L(vec![Sx::a("peek"), Sx::n(*c as u64)]),
        Guard::PeekNone => Sx::a("peeknone"),
        Guard::LenParity(b) => Sx::L(vec![Sx::a("len"), Sx::n(*b as u64)]),
        Guard::CounterParity(b) => Sx::L(vec![Sx::a("cnt"), Sx::n(*b as u64)]),
    }
}

fn guard_from(sx: &Sx) -> Result<Guard, String> {
    match sx {
        Sx::A(s) if s == "always" => Ok(Guard::Always),
        Sx::A(s) if s == "peeknone" => Ok(Guard::PeekNone),
        Sx::L(xs) => match xs[0].atom()? {
            "peek" => Ok(Guard::PeekIs(ch(xs[1].num()?)?)),
            "len" => Ok(Guard::LenParity(xs[1].num()? as u8)),
            "cnt" => Ok(Guard::CounterParity(xs[1].num()? as u8)),
            o => Err(format!("bad guard {}", o)),
        },
        o => Err(format!("bad guard {}", o.to_string())),
    }
}

fn outcome_sx(o: &Outcome) -> Sx {
    Sx::L(vec![
        Sx::a("out"),
        Sx::n(o.reset as u64),
        match &o.switch {
            None => Sx::a("-"),
            Some(s) => Sx::a(s),
        },
        match o.fin {
            Fin::Continue => Sx::a("cont"),
            Fin::Return(v) => Sx::L(vec![Sx::a("ret"), Sx::n(v as u64)]),
            Fin::Err(v) => Sx::L(vec![Sx::a("err"), Sx::n(v as u64)]),
        },
    ])
}

fn outcome_from(sx: &Sx) -> Result<Outcome, String> {
    let xs = sx.list()?;
    if xs.len() != 4 || xs[0].atom()? != "out" {
        return Err("bad outcome".into());
    }
    let reset = xs[1].num()? != 0;
    let switch = match xs[2].atom()? {
        "-" => None,
        s => Some(s.to_string()),
    };
    let fin = match &xs[3] {
        Sx::A(s) if s == "cont" => Fin::Continue,
        Sx::L(l) => match l[0].atom()? {
            "ret" => Fin::Return(l[1].num()? as u32),
            "err" => Fin::Err(l[1].num()? as u32),
            o => return Err(format!("bad fin {}", o)),
        },
        o => return Err(format!("bad fin {}", o.to_string())),
    };
    Ok(Outcome { reset, switch, fin })
}

fn action_sx(a: &Action) -> Sx {
    let branches = |head: &str, bs: &Vec<(Guard, Outcome)>| {
        let mut v = vec![Sx::a(head)];
        for (g, o) in bs {
            v.push(Sx::L(vec![guard_sx(g), outcome_sx(o)]));
        }
        Sx::L(v)
    };
    match a {
        Action::Skip => Sx::a("skip"),
        Action::Simple(v) => Sx::L(vec![Sx::a("simple"), Sx::n(*v as u64)]),
        Action::Do(bs) => branches("do", bs),
        Action::Try(bs) => branches("try", bs),
    }
}

fn action_from(sx: &Sx) -> Result<Action, String> {
    match sx {
        Sx::A(s) if s == "skip" => Ok(Action::Skip),
        Sx::L(xs) => {
            let head = xs[0].atom()?;
            match head {
                "simple" => Ok(Action::Simple(xs[1].num()? as u32)),
                "do" | "try" => {
                    let mut bs = vec![];
                    for b in &xs[1..] {
                        let l = b.list()?;
                        bs.push((guard_from(&l[0])?, outcome_from(&l[1])?));
                    }
                    if head == "do" {
                        Ok(Action::Do(bs))
                    } else {
                        Ok(Action::Try(bs))
                    }
                }
                o => Err(format!("bad action {}", o)),
            }
        }
        o => Err(format!("bad action {}", o.to_string())),
    }
}

impl Spec {
    pub fn to_sx(&self) -> Sx {
        let mut v = vec![
            Sx::a("spec"),
            Sx::L(vec![Sx::a("err"), Sx::n(self.error_type as u64)]),
            Sx::L(vec![Sx::a("named"), Sx::n(self.named as u64)]),
        ];
        let mut lets = vec![Sx::a("lets")];
        for (n, r) in &self.lets {
            lets.push(Sx::L(vec![Sx::a(n), r.to_sx()]));
        }
        v.push(Sx::L(lets));
        for s in &self.sets {
            let mut sv = vec![Sx::a("set"), Sx::a(&s.name)];
            if !s.pre_lets.is_empty() {
                let mut pv = vec![Sx::a("pre")];
                for (n, r) in &s.pre_lets {
                    pv.push(Sx::L(vec![Sx::a(n), r.to_sx()]));
                }
                sv.push(Sx::L(pv));
            }
            for e in &s.entries {
                sv.push(match e {
                    Entry::Let(n, r) => Sx::L(vec![Sx::a("let"), Sx::a(n), r.to_sx()]),
                    Entry::Rule(r) => Sx::L(vec![
                        Sx::a("rule"),
                        Sx::n(r.id as u64),
                        r.re.to_sx(),
                        match &r.ctx {
                            None => Sx::a("-"),
                            Some(c) => c.to_sx(),
                        },
                        action_sx(&r.act),
                    ]),
                });
            }
            v.push(Sx::L(sv));
        }
        Sx::L(v)
    }

    pub fn to_text(&self) -> String {
        self.to_sx().to_string()
    }

    pub fn from_text(s: &str) -> Result<Spec, String> {
        Spec::from_sx(&Sx::parse(s)?)
    }

    pub fn from_sx(sx: &Sx) -> Result<Spec, String> {
        let xs = sx.list()?;
        if xs.len() < 4 || xs[0].atom()? != "spec" {
            return Err("bad spec".into());
        }
        let error_type = xs[1].list()?[1].num()? != 0;
        let named = xs[2].list()?[1].num()? != 0;
        let mut lets = vec![];
        for l in &xs[3].list()?[1..] {
            let l = l.list()?;
            lets.push((l[0].atom()?.to_string(), Re::from_sx(&l[1])?));
        }
        let mut sets = vec![];
        for s in &xs[4..] {
            let s = s.list()?;
            if s[0].atom()? != "set" {
                return Err("bad set".into());
            }
            let name = s[1].atom()?.to_string();
            let mut entries = vec![];
            let mut pre_lets = vec![];
            for e in &s[2..] {
                let e = e.list()?;
                match e[0].atom()? {
                    "pre" => {
                        for l in &e[1..] {
                            let l = l.list()?;
                            pre_lets.push((l[0].atom()?.to_string(), Re::from_sx(&l[1])?));
                        }
                    }
                    "let" => entries.push(Entry::Let(e[1].atom()?.to_string(), Re::from_sx(&e[2])?)),
                    "rule" => entries.push(Entry::Rule(Rule {
                        id: e[1].num()? as u32,
                        re: Re::from_sx(&e[2])?,
                        ctx: match &e[3] {
                            Sx::A(s) if s == "-" => None,
                            o => Some(Re::from_sx(o)?),
                        },
                        act: action_from(&e[4])?,
                    })),
                    o => return Err(format!("bad entry {}", o)),
                }
            }
            sets.push(RuleSet { name, pre_lets, entries });
        }
        Ok(Spec {
            error_type,
            named,
            lets,
            sets,
        })
    }
}
