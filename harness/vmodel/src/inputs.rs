//! Input generation: alphabets derived from the spec, bounded-exhaustive strings, random and
//! automaton-guided strings, long stress inputs, class-boundary probes.

use crate::class::{builtin_ranges, class_contains, Env};
use crate::deriv::{Sym, DEAD};
use crate::reflex::Compiled;
use crate::rng::Rng;
use crate::spec::{Entry, Re, SetItem, Spec};

fn push_char(out: &mut Vec<char>, v: u32) {
    if let Some(c) = char::from_u32(v) {
        if !out.contains(&c) {
            out.push(c);
        }
    }
}

fn mentioned_chars(re: &Re, env: &Env, out: &mut Vec<char>, builtin_reps: bool) {
    match re {
        Re::Chr(c) => push_char(out, *c as u32),
        Re::Str(cs) => {
            for c in cs {
                push_char(out, *c as u32)
            }
        }
        Re::Set(items) => {
            for it in items {
                match it {
                    SetItem::C(c) => push_char(out, *c as u32),
                    SetItem::R(a, b) => {
                        push_char(out, *a as u32);
                        push_char(out, *b as u32);
                        let mid = (*a as u32 + *b as u32) / 2;
                        push_char(out, mid);
                    }
                }
            }
        }
        Re::Builtin(n) => {
            if builtin_reps {
                let rs = builtin_ranges(n);
                if let Some((a, _)) = rs.first() {
                    push_char(out, *a);
                }
                if rs.len() > 2 {
                    push_char(out, rs[rs.len() / 2].0);
                }
            }
        }
        Re::Var(x) => {
            if let Some(r) = env.get(x) {
                mentioned_chars(r, env, out, builtin_reps)
            }
        }
        Re::Star(a) | Re::Plus(a) | Re::Opt(a) => mentioned_chars(a, env, out, builtin_reps),
        Re::Cat(a, b) | Re::Alt(a, b) | Re::Diff(a, b) => {
            mentioned_chars(a, env, out, builtin_reps);
            mentioned_chars(b, env, out, builtin_reps);
        }
        Re::Any | Re::Eoi => {}
    }
}

/// Characters mentioned by the spec, plus one character no literal mentions ("foreign"), plus
/// characters action guards peek for. Capped to `cap` symbols (foreign char always kept).
pub fn alphabet(spec: &Spec, cap: usize, rng: &mut Rng) -> (Vec<char>, char) {
    let mut out = vec![];
    for (si, set) in spec.sets.iter().enumerate() {
        for (ei, e) in set.entries.iter().enumerate() {
            if let Entry::Rule(r) = e {
                let env = spec.bindings_at(si, ei);
                mentioned_chars(&r.re, &env, &mut out, true);
                if let Some(c) = &r.ctx {
                    mentioned_chars(c, &env, &mut out, true);
                }
            }
        }
    }
    let foreign = ['z', 'q', '~', 'Z', '9', '\u{1F600}', '\u{E9}']
        .iter()
        .copied()
        .find(|c| !out.contains(c))
        .unwrap_or('\u{2603}');
    if out.len() + 1 > cap {
        rng.shuffle(&mut out);
        out.truncate(cap - 1);
    }
    out.sort();
    out.push(foreign);
    (out, foreign)
}

/// All strings over `alpha` of length 0..=L where L is the largest length with total <= max_total.
pub fn exhaustive(alpha: &[char], max_total: usize, max_len: usize) -> Vec<Vec<char>> {
    let k = alpha.len().max(1);
    let mut total = 1usize;
    let mut level = 1usize;
    let mut l = 0usize;
    while l < max_len {
        level = level.saturating_mul(k);
        if total + level > max_total {
            break;
        }
        total += level;
        l += 1;
    }
    let mut out: Vec<Vec<char>> = vec![vec![]];
    let mut frontier: Vec<Vec<char>> = vec![vec![]];
    for _ in 0..l {
        let mut next = Vec::with_capacity(frontier.len() * k);
        for w in &frontier {
            for c in alpha {
                let mut w2 = w.clone();
                w2.push(*c);
                next.push(w2);
            }
        }
        out.extend(next.iter().cloned());
        frontier = next;
    }
    out
}

pub fn random_strings(alpha: &[char], rng: &mut Rng, count: usize, len: (usize, usize)) -> Vec<Vec<char>> {
    (0..count)
        .map(|_| {
            let n = rng.range(len.0, len.1);
            (0..n).map(|_| *rng.pick(alpha)).collect()
        })
        .collect()
}

/// Strings that follow viable transitions of the reference automaton most of the time, with
/// failing continuations (foreign character, end of input, a character that kills the attempt).
pub fn guided(c: &mut Compiled, alpha: &[char], foreign: char, rng: &mut Rng, count: usize, len: (usize, usize)) -> Vec<Vec<char>> {
    let mut out = vec![];
    let n_sets = c.sets.len();
    for _ in 0..count {
        let n = rng.range(len.0, len.1);
        let mut w: Vec<char> = Vec::with_capacity(n);
        let mut set = 0usize;
        let mut state = 0u32;
        while w.len() < n {
            let mut auto = c.take_auto(set);
            let firsts = auto.first_segs(&mut c.arena, state);
            let roll = rng.below(100);
            let ch = if roll < 72 && !firsts.is_empty() {
                let seg = *rng.pick(&firsts) as usize;
                let (lo, hi) = c.arena.segs.range(seg);
                // prefer an alphabet member inside the segment, otherwise the segment start
                let inside: Vec<char> = alpha
                    .iter()
                    .copied()
                    .filter(|a| (*a as u32) >= lo && (*a as u32) <= hi)
                    .collect();
                if !inside.is_empty() {
                    *rng.pick(&inside)
                } else {
                    char::from_u32(lo).unwrap_or(foreign)
                }
            } else if roll < 90 {
                *rng.pick(alpha)
            } else {
                foreign
            };
            w.push(ch);
            let sym = Sym::Seg(c.arena.segs.seg_of(ch) as u32);
            let t = auto.step(&mut c.arena, state, sym);
            c.put_auto(set, auto);
            if t == DEAD || rng.chance(1, 8) {
                set = if rng.chance(1, 2) { 0 } else { rng.below(n_sets) };
                state = 0;
            } else {
                state = t;
            }
        }
        out.push(w);
    }
    out
}

/// Largest prefix length (doubling from 256) whose reference work (characters examined by scans
/// and by right-context evaluations) stays within `budget`. Rewind- and context-heavy definitions
/// are inherently quadratic or cubic in the input length; this keeps every stress execution
/// bounded without judging speed.
pub fn bounded_prefix_len(c: &mut Compiled, input: &[char], budget: u64) -> usize {
    let mut n = 256.min(input.len());
    let mut best = n;
    loop {
        c.ctx_steps = 0;
        let work = {
            let mut rr = crate::reflex::RefRun::new(c, &input[..n], false, 0, false);
            let h = rr.run(n + 4);
            h.stats.chars_examined
        } + c.ctx_steps;
        if work > budget {
            break;
        }
        best = n;
        if n >= input.len() {
            break;
        }
        n = (n * 2).min(input.len());
    }
    best
}

/// Long stress inputs for the progress family.
pub fn stress(alpha: &[char], foreign: char, rng: &mut Rng, n: usize) -> Vec<Vec<char>> {
    let mut out = vec![];
    // one repeated character
    for c in alpha.iter().take(2) {
        out.push(vec![*c; n]);
    }
    // only unlexable characters (every character is its own error: linear, so ten times longer)
    out.push(vec![foreign; n * 10]);
    // long near-matches: a long run followed by a killer, repeated
    let mut w = vec![];
    while w.len() < n {
        let run = rng.range(1, 50);
        let c = *rng.pick(alpha);
        for _ in 0..run {
            w.push(c);
        }
        w.push(if rng.chance(1, 2) { foreign } else { *rng.pick(alpha) });
    }
    w.truncate(n);
    out.push(w);
    // random
    out.push((0..n).map(|_| *rng.pick(alpha)).collect());
    out
}

/// Probe characters for a class expression: every elementary-segment end point and its neighbours.
pub fn class_probe_chars(re: &Re, env: &Env) -> Vec<char> {
    let mut pts = vec![];
    crate::class::collect_boundaries(re, env, &mut pts, 0);
    pts.extend([0u32, 0x7F, 0x80, 0xD7FF, 0xE000, 0x10FFFF, 0xFFFF, 0x10000]);
    let mut out = vec![];
    for p in pts {
        for d in [-2i64, -1, 0, 1] {
            let v = p as i64 + d;
            if (0..=0x10FFFF).contains(&v) {
                push_char(&mut out, v as u32);
            }
        }
    }
    out.sort();
    out
}

/// Quick sanity helper used by tests.
pub fn class_members(re: &Re, env: &Env, cs: &[char]) -> Vec<bool> {
    cs.iter().map(|c| class_contains(re, env, *c)).collect()
}
