//! Small deterministic PRNG (splitmix64 seeding + xoshiro256**). No external crates.

#[derive(Clone, Debug)]
pub struct Rng {
    s: [u64; 4],
}

fn splitmix(x: &mut u64) -> u64 {
    *x = x.wrapping_add(0x9E3779B97F4A7C15);
    let mut z = *x;
    z = (z ^ (z >> 30)).wrapping_mul(0xBF58476D1CE4E5B9);
    z = (z ^ (z >> 27)).wrapping_mul(0x94D049BB133111EB);
    z ^ (z >> 31)
}

impl Rng {
    pub fn new(seed: u64) -> Rng {
        let mut x = seed;
        let s = [
            splitmix(&mut x),
            splitmix(&mut x),
            splitmix(&mut x),
            splitmix(&mut x),
        ];
        Rng { s }
    }

    /// Derive an independent stream from a seed and a list of labels.
    pub fn derive(seed: u64, labels: &[u64]) -> Rng {
        let mut x = seed ^ 0xA5A5_5A5A_DEAD_BEEF;
        let mut acc = splitmix(&mut x);
        for l in labels {
            let mut y = acc ^ l.wrapping_mul(0x9E3779B97F4A7C15);
            acc = splitmix(&mut y);
        }
        Rng::new(acc)
    }

    pub fn next_u64(&mut self) -> u64 {
        let result = self.s[1].wrapping_mul(5).rotate_left(7).wrapping_mul(9);
        let t = self.s[1] << 17;
        self.s[2] ^= self.s[0];
        self.s[3] ^= self.s[1];
        self.s[1] ^= self.s[2];
        self.s[0] ^= self.s[3];
        self.s[2] ^= t;
        self.s[3] = self.s[3].rotate_left(45);
        result
    }

    /// Uniform in 0..n (n > 0).
    pub fn below(&mut self, n: usize) -> usize {
        assert!(n > 0);
        (self.next_u64() % (n as u64)) as usize
    }

    /// Uniform in lo..=hi.
    pub fn range(&mut self, lo: usize, hi: usize) -> usize {
        assert!(lo <= hi);
        lo + self.below(hi - lo + 1)
    }

    /// True with probability num/den.
    pub fn chance(&mut self, num: u32, den: u32) -> bool {
        (self.next_u64() % den as u64) < num as u64
    }

    pub fn pick<'a, T>(&mut self, xs: &'a [T]) -> &'a T {
        &xs[self.below(xs.len())]
    }

    /// Weighted choice: returns index.
    pub fn weighted(&mut self, ws: &[u32]) -> usize {
        let total: u64 = ws.iter().map(|w| *w as u64).sum();
        assert!(total > 0);
        let mut r = self.next_u64() % total;
        for (i, w) in ws.iter().enumerate() {
            if r < *w as u64 {
                return i;
            }
            r -= *w as u64;
        }
        ws.len() - 1
    }

    pub fn shuffle<T>(&mut self, xs: &mut [T]) {
        for i in (1..xs.len()).rev() {
            let j = self.below(i + 1);
            xs.swap(i, j);
        }
    }
}

/// FNV-1a style 64-bit hash for counting distinct cases.
pub fn hash64(bytes: &[u8]) -> u64 {
    let mut h: u64 = 0xcbf29ce484222325;
    for b in bytes {
        h ^= *b as u64;
        h = h.wrapping_mul(0x100000001b3);
    }
    // final avalanche
    let mut x = h;
    splitmix(&mut x)
}
