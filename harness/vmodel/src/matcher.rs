//! Matcher B: direct denotational matcher on the syntax tree ("set of end positions").
//! Deliberately naive: it is the executable definition of the regex semantics in the README.

use crate::class::{class_contains, is_class_expr, Env};
use crate::spec::Re;
use std::collections::BTreeSet;

/// (end position in chars, whether an end-of-input marker was consumed)
pub type Ends = BTreeSet<(usize, bool)>;

pub fn ends(re: &Re, env: &Env, input: &[char], start: usize, via: bool) -> Ends {
    let mut out = Ends::new();
    match re {
        Re::Chr(c) => {
            if !via && start < input.len() && input[start] == *c {
                out.insert((start + 1, via));
            }
        }
        Re::Str(cs) => {
            if cs.is_empty() {
                // empty string literal: lexgen builds no path for it (dead). Outside WF.
            } else if !via && start + cs.len() <= input.len() && &input[start..start + cs.len()] == cs.as_slice()
            {
                out.insert((start + cs.len(), via));
            }
        }
        Re::Set(_) | Re::Any | Re::Builtin(_) | Re::Diff(_, _) => {
            if !via && start < input.len() && class_contains(re, env, input[start]) {
                out.insert((start + 1, via));
            }
        }
        Re::Eoi => {
            if start == input.len() {
                out.insert((start, true));
            }
        }
        Re::Var(x) => {
            if let Some(r) = env.get(x) {
                return ends(r, env, input, start, via);
            }
        }
        Re::Alt(a, b) => {
            if is_class_expr(re, env) {
                if !via && start < input.len() && class_contains(re, env, input[start]) {
                    out.insert((start + 1, via));
                }
            } else {
                out.extend(ends(a, env, input, start, via));
                out.extend(ends(b, env, input, start, via));
            }
        }
        Re::Cat(a, b) => {
            for (e, v) in ends(a, env, input, start, via) {
                out.extend(ends(b, env, input, e, v));
            }
        }
        Re::Opt(a) => {
            out.insert((start, via));
            out.extend(ends(a, env, input, start, via));
        }
        Re::Star(a) => {
            out.insert((start, via));
            closure(a, env, input, &mut out);
        }
        Re::Plus(a) => {
            out.extend(ends(a, env, input, start, via));
            closure(a, env, input, &mut out);
        }
    }
    out
}

fn closure(a: &Re, env: &Env, input: &[char], out: &mut Ends) {
    let mut work: Vec<(usize, bool)> = out.iter().copied().collect();
    while let Some((e, v)) = work.pop() {
        for x in ends(a, env, input, e, v) {
            if out.insert(x) {
                work.push(x);
            }
        }
    }
}

/// Does `re` match exactly `input[start..end]` (optionally through `$`)?
pub fn matches_span(re: &Re, env: &Env, input: &[char], start: usize, end: usize) -> (bool, bool) {
    let e = ends(re, env, input, start, false);
    (e.contains(&(end, false)), e.contains(&(end, true)))
}

/// Right-context test: some prefix of input[pos..] (end-of-input visible) is in L(ctx).
pub fn ctx_ok(ctx: &Re, env: &Env, input: &[char], pos: usize) -> bool {
    !ends(ctx, env, input, pos, false).is_empty()
}
