//! Spec generators ("families"). Everything is seeded; bounded-exhaustive parts are seed-independent.

use crate::class::{class_size, is_class_expr, Env};
use crate::print::{Paren, PrintOpts};
use crate::rng::Rng;
use crate::spec::{Action, Entry, Fin, Guard, Outcome, Re, Rule, RuleSet, SetItem, Spec};
use crate::wf::{check_wf, contains_eoi, nullable_chars};

#[derive(Clone, Debug)]
pub struct GenCfg {
    pub letters: Vec<char>,
    pub n_sets: (usize, usize),
    pub rules: (usize, usize),
    pub allow_empty_sets: bool,
    pub depth: usize,
    /// weights: Chr, Str, Set, Any, Builtin, Diff
    pub w_atom: [u32; 6],
    /// weights at inner nodes: atom, Cat, Alt, Star, Plus, Opt
    pub w_node: [u32; 6],
    pub p_ctx: u32,      // percent
    pub p_eoi_rule: u32, // percent of rules that get a `$` tail
    pub p_eoi_ctx: u32,  // percent of contexts that get a `$` tail / are `$`
    /// percent of the `$` rules whose `$` is followed by something (nullable or not)
    pub p_eoi_mid: u32,
    /// percent of the `$` contexts in which `$` repeats, sits under a repetition or is followed by something
    pub p_eoi_ctx_multi: u32,
    /// weights: Skip, Simple, Do, Try
    pub w_act: [u32; 4],
    pub p_switch: u32,
    pub p_reset: u32,
    pub p_continue: u32,
    pub p_err: u32,
    pub p_guarded: u32,
    pub p_let: u32,
    pub p_unnamed: u32,
    pub builtins: Vec<&'static str>,
    pub p_repeat_in_set: u32,
    pub shuffle_sets: bool,
    /// sometimes put a context rule over several single characters in front of one rule per
    /// character (several terminal states sharing a guarded top rule with different fallbacks)
    pub cover_ctx: bool,
}

impl GenCfg {
    pub fn base() -> GenCfg {
        GenCfg {
            letters: vec!['a', 'b', 'c'],
            n_sets: (1, 1),
            rules: (2, 5),
            allow_empty_sets: false,
            depth: 3,
            w_atom: [10, 4, 5, 1, 0, 0],
            w_node: [4, 6, 3, 2, 2, 2],
            p_ctx: 0,
            p_eoi_rule: 0,
            p_eoi_ctx: 0,
            p_eoi_mid: 0,
            p_eoi_ctx_multi: 0,
            w_act: [1, 3, 6, 0],
            p_switch: 0,
            p_reset: 10,
            p_continue: 15,
            p_err: 0,
            p_guarded: 25,
            p_let: 10,
            p_unnamed: 50,
            builtins: vec!["ascii_lowercase", "ascii_digit", "ascii_alphabetic"],
            p_repeat_in_set: 2,
            shuffle_sets: false,
            cover_ctx: false,
        }
    }
}

pub const FAMILIES: [&str; 19] = [
    "accum", "munch", "lang", "rulesets", "rctx", "eoi", "loc", "actions", "recover", "progress", "realistic",
    "class", "prec", "bigclass", "mixed", "eoictx", "mixedx", "eoiseq", "langu",
];

pub fn family_cfg(family: &str, rng: &mut Rng) -> GenCfg {
    let mut c = GenCfg::base();
    match family {
        "munch" => {
            let n = rng.range(3, 5);
            c.letters = ('a'..='e').take(n).collect();
            c.rules = (2, 6);
            c.depth = rng.range(2, 4);
            c.w_atom = [10, 6, 6, 1, 1, 0];
            c.p_ctx = 5;
        }
        "lang" => {
            c.letters = vec!['a', 'b', 'c'];
            c.rules = (1, 1);
            c.depth = rng.range(2, 5);
            c.w_atom = [8, 3, 6, 3, 1, 2];
            c.w_act = [0, 1, 1, 0];
            c.p_continue = 0;
            c.p_reset = 0;
            c.p_guarded = 0;
        }
        "langu" => {
            // "lang" over 1-, 2-, 3- and 4-byte characters and a zero-width one, with more string
            // literals: literal syntax (strings ending or starting in a multi-byte character, strings
            // under postfix operators, sets and ranges over non-ASCII characters) reaches the automaton
            // through byte-offset-sensitive code (round 11: a string literal whose LAST character is
            // multi-byte matched nothing)
            let pool = ['é', 'あ', '😀', '\u{301}', 'b'];
            let mut ls = vec!['a'];
            while ls.len() < 4 {
                let c = pool[rng.below(pool.len())];
                if !ls.contains(&c) {
                    ls.push(c);
                }
            }
            c.letters = ls;
            c.rules = (1, 1);
            c.depth = rng.range(2, 4);
            c.w_atom = [6, 8, 5, 2, 0, 2];
            c.w_act = [0, 1, 1, 0];
            c.p_continue = 0;
            c.p_reset = 0;
            c.p_guarded = 0;
        }
        "rulesets" => {
            c.letters = vec!['a', 'b', 'c'];
            c.n_sets = (2, 7);
            c.rules = (0, 4);
            c.allow_empty_sets = true;
            c.depth = 2;
            c.p_switch = 45;
            c.p_unnamed = 0;
            c.w_act = [1, 2, 8, 2];
            c.p_err = 10;
            c.shuffle_sets = true;
            // `$` tails in any of the 2-7 rule sets: the `$` edges of a rule set's automaton are
            // renumbered like all others when the automata are concatenated
            c.p_eoi_rule = 15;
        }
        "rctx" => {
            c.cover_ctx = true;
            c.letters = vec!['a', 'b', 'c'];
            c.rules = (2, 5);
            c.depth = 2;
            c.p_ctx = 60;
            c.p_eoi_ctx = 15;
            c.w_atom = [10, 4, 5, 1, 2, 0];
            // exact tables only; `whitespace` has 10 ranges and forces the search-table path
            c.builtins = vec!["ascii_lowercase", "ascii_digit", "whitespace", "whitespace", "ascii_punctuation"];
        }
        "eoi" => {
            c.letters = vec!['a', 'b'];
            c.n_sets = (1, 3);
            c.rules = (1, 4);
            c.depth = 2;
            c.p_eoi_rule = 35;
            c.p_ctx = 15;
            c.p_eoi_ctx = 40;
            c.p_switch = 30;
            c.p_unnamed = 30;
            c.w_act = [1, 2, 8, 1];
        }
        "eoictx" => {
            // contexts in which `$` repeats, sits under a repetition or is followed by further
            // factors (C04: "any regex may serve as a context"); rules keep `$` at the tail
            c.letters = vec!['a', 'b'];
            c.n_sets = (1, 3);
            c.rules = (1, 4);
            c.depth = 2;
            c.p_eoi_rule = 25;
            c.p_eoi_mid = 0;
            c.p_ctx = 55;
            c.p_eoi_ctx = 60;
            c.p_eoi_ctx_multi = 75;
            c.p_switch = 30;
            c.p_unnamed = 30;
            c.w_act = [1, 2, 8, 1];
        }
        "loc" => {
            c.letters = vec!['a', '\n', '\t', 'é', 'あ', '\u{301}', '😀'];
            c.rules = (2, 5);
            c.depth = 2;
            c.w_atom = [10, 5, 4, 2, 0, 0];
            c.p_ctx = 10;
            c.p_continue = 25;
            c.p_reset = 20;
        }
        "actions" => {
            c.letters = vec!['a', 'b', 'c'];
            c.n_sets = (1, 3);
            c.rules = (1, 3);
            c.depth = 2;
            c.w_act = [2, 2, 6, 4];
            c.p_switch = 30;
            c.p_reset = 30;
            c.p_continue = 40;
            c.p_err = 25;
            c.p_guarded = 50;
            c.p_unnamed = 20;
        }
        "accum" => {
            // many accumulating actions (continue_ without reset) next to returning ones, in
            // automata with rewinds: stale saved matches become visible
            c.letters = if rng.chance(1, 2) { vec!['a', 'b'] } else { vec!['a', 'b', 'c'] };
            c.rules = (4, 7);
            c.depth = rng.range(1, 2);
            c.w_atom = [10, 8, 3, 1, 0, 0];
            c.w_node = [4, 8, 2, 1, 1, 4];
            c.w_act = [1, 1, 8, 2];
            c.p_continue = 50;
            c.p_reset = 15;
            c.p_err = 10;
            c.p_guarded = 30;
            c.p_ctx = 10;
        }
        "recover" => {
            c.letters = vec!['a', 'b'];
            c.n_sets = (2, 4);
            c.rules = (1, 3);
            c.depth = 2;
            c.p_ctx = 25;
            c.p_eoi_ctx = 10;
            c.w_act = [1, 2, 8, 1];
            c.p_switch = 50;
            c.p_unnamed = 0;
            c.p_continue = 20;
        }
        "progress" => {
            c.letters = vec!['a', 'b'];
            c.n_sets = (1, 2);
            c.rules = (1, 4);
            c.depth = 3;
            c.p_continue = 40;
            c.p_switch = 20;
            c.p_ctx = 10;
            c.w_node = [3, 6, 3, 3, 3, 2];
        }
        "class" => {
            c.letters = vec!['a', 'b', 'c', 'd', 'e'];
            c.rules = (1, 2);
            c.depth = 1;
        }
        "bigclass" => {
            c.letters = vec!['a', 'b', 'c'];
            c.rules = (1, 3);
            c.depth = 2;
            c.w_atom = [5, 1, 3, 1, 8, 4];
            c.builtins = vec![
                "alphabetic",
                "alphanumeric",
                "lowercase",
                "uppercase",
                "numeric",
                "XID_Start",
                "XID_Continue",
                "ascii_punctuation",
                "whitespace",
                "ascii_hexdigit",
            ];
            c.p_ctx = 40;
        }
        "mixedx" => {
            // "mixed" over a hostile alphabet (LF, TAB, 2-4 byte, double-width and zero-width
            // characters) and with classes that compile to binary-search tables: every feature the
            // dedicated families isolate, in one definition. Used as a small extra part by most checks
            // so that a change which needs a *combination* (tables + clone, wide characters +
            // iterator input, contexts + rule sets + `$`) meets it somewhere.
            let pool = ['b', '\n', '\t', 'é', 'あ', '\u{301}', '😀', 'c'];
            let mut ls = vec!['a'];
            let n = rng.range(3, 4);
            while ls.len() < 1 + n {
                let c = pool[rng.below(pool.len())];
                if !ls.contains(&c) {
                    ls.push(c);
                }
            }
            c.letters = ls;
            c.n_sets = (1, 3);
            c.rules = (1, 5);
            c.depth = 3;
            c.w_atom = [10, 4, 5, 2, 4, 0];
            // exact tables only (the Unicode-dependent ones are stale: C13's known finding must not
            // leak into other checks); `whitespace` has 10 ranges and forces the search-table path
            c.builtins = vec!["whitespace", "whitespace", "control", "ascii_punctuation", "ascii_digit", "ascii_hexdigit"];
            c.p_ctx = 25;
            c.p_eoi_rule = 8;
            c.p_eoi_ctx = 10;
            c.w_act = [1, 2, 6, 2];
            c.p_switch = 25;
            c.p_err = 15;
            c.p_continue = 20;
            c.p_reset = 20;
            c.p_unnamed = 30;
        }
        "mixed" | _ => {
            c.letters = vec!['a', 'b', 'c', 'd'];
            c.n_sets = (1, 3);
            c.rules = (1, 5);
            c.depth = 3;
            c.w_atom = [10, 4, 5, 2, 1, 0];
            c.p_ctx = 20;
            c.p_eoi_rule = 8;
            c.p_eoi_ctx = 10;
            c.w_act = [1, 2, 6, 2];
            c.p_switch = 25;
            c.p_err = 15;
            c.p_unnamed = 30;
        }
    }
    c
}

pub struct Gen<'a> {
    pub rng: &'a mut Rng,
    pub cfg: GenCfg,
}

impl<'a> Gen<'a> {
    fn letter(&mut self) -> char {
        *self.rng.pick(&self.cfg.letters)
    }

    pub fn gen_set_atom(&mut self) -> Re {
        let mut ls = self.cfg.letters.clone();
        ls.sort();
        let n = self.rng.range(1, 3);
        let mut items = vec![];
        for _ in 0..n {
            if self.rng.chance(1, 2) && ls.len() >= 2 {
                let i = self.rng.below(ls.len());
                let j = self.rng.range(i, ls.len() - 1);
                items.push(SetItem::R(ls[i], ls[j]));
            } else {
                items.push(SetItem::C(*self.rng.pick(&ls)));
            }
        }
        if self.rng.chance(self.cfg.p_repeat_in_set, 100) {
            // a bracket set that repeats a character
            if let Some(SetItem::C(c)) = items.iter().find(|i| matches!(i, SetItem::C(_))).cloned() {
                items.push(SetItem::C(c));
            } else {
                let c = *self.rng.pick(&ls);
                items.push(SetItem::C(c));
                items.push(SetItem::C(c));
            }
        }
        Re::Set(items)
    }

    pub fn gen_class(&mut self, depth: usize) -> Re {
        // class expression: Chr, Set, Any, Builtin, Alt, Diff
        let k = if depth == 0 {
            self.rng.weighted(&[4, 6, 1, 2, 0, 0])
        } else {
            self.rng.weighted(&[3, 5, 1, 2, 3, 5])
        };
        match k {
            0 => Re::Chr(self.letter()),
            1 => self.gen_set_atom(),
            2 => Re::Any,
            3 => {
                if self.cfg.builtins.is_empty() {
                    self.gen_set_atom()
                } else {
                    { let b: &&str = self.rng.pick(&self.cfg.builtins); Re::bi(*b) }
                }
            }
            4 => Re::alt(self.gen_class(depth - 1), self.gen_class(depth - 1)),
            _ => Re::diff(self.gen_class(depth - 1), self.gen_class(depth - 1)),
        }
    }

    pub fn gen_diff_atom(&mut self) -> Re {
        let env = Env::new();
        for _ in 0..20 {
            let d = Re::diff(self.gen_class(1), self.gen_class(1));
            if class_size(&d, &env) > 0 {
                return d;
            }
        }
        Re::diff(Re::Any, Re::Chr(self.letter()))
    }

    pub fn gen_atom(&mut self) -> Re {
        match self.rng.weighted(&self.cfg.w_atom.clone()) {
            0 => Re::Chr(self.letter()),
            1 => {
                let n = self.rng.range(2, 3);
                Re::Str((0..n).map(|_| self.letter()).collect())
            }
            2 => self.gen_set_atom(),
            3 => Re::Any,
            4 => {
                if self.cfg.builtins.is_empty() {
                    Re::Chr(self.letter())
                } else {
                    { let b: &&str = self.rng.pick(&self.cfg.builtins); Re::bi(*b) }
                }
            }
            _ => self.gen_diff_atom(),
        }
    }

    pub fn gen_re(&mut self, depth: usize) -> Re {
        if depth == 0 {
            return self.gen_atom();
        }
        match self.rng.weighted(&self.cfg.w_node.clone()) {
            0 => self.gen_atom(),
            1 => Re::cat(self.gen_re(depth - 1), self.gen_re(depth - 1)),
            2 => Re::alt(self.gen_re(depth - 1), self.gen_re(depth - 1)),
            3 => Re::star(self.gen_re(depth - 1)),
            4 => Re::plus(self.gen_re(depth - 1)),
            _ => Re::opt(self.gen_re(depth - 1)),
        }
    }

    /// A regex that does not match the empty string.
    pub fn gen_nonnull(&mut self, depth: usize) -> Re {
        let env = Env::new();
        let r = self.gen_re(depth);
        if nullable_chars(&r, &env) {
            if self.rng.chance(1, 2) {
                Re::cat(self.gen_atom(), r)
            } else {
                Re::cat(r, self.gen_atom())
            }
        } else {
            r
        }
    }

    pub fn gen_ctx(&mut self) -> Re {
        if self.rng.chance(self.cfg.p_eoi_ctx, 100) {
            if self.rng.chance(self.cfg.p_eoi_ctx_multi, 100) {
                let x = self.gen_nonnull(1);
                let y = self.gen_nonnull(1);
                let z = self.gen_atom();
                return match self.rng.below(9) {
                    0 => Re::cat(Re::Eoi, Re::Eoi),
                    1 => Re::cat(Re::alt(x, Re::Eoi), Re::cat(Re::star(z), Re::alt(y, Re::Eoi))),
                    2 => Re::plus(Re::Eoi),
                    3 => Re::cat(Re::plus(Re::alt(x, Re::Eoi)), y),
                    4 => Re::cat(Re::plus(Re::cat(Re::Eoi, Re::opt(x))), y),
                    5 => Re::cat(Re::Eoi, y),
                    6 => Re::cat(Re::star(Re::alt(x, Re::Eoi)), Re::Eoi),
                    7 => Re::cat(Re::opt(Re::Eoi), Re::cat(Re::opt(Re::Eoi), x)),
                    _ => Re::cat(Re::plus(Re::cat(Re::Eoi, Re::Eoi)), Re::opt(y)),
                };
            }
            return match self.rng.below(3) {
                0 => Re::Eoi,
                1 => Re::cat(self.gen_nonnull(1), Re::Eoi),
                _ => Re::alt(self.gen_nonnull(1), Re::Eoi),
            };
        }
        // any operator shape, nullable allowed
        let d = self.rng.range(0, 2);
        self.gen_re(d)
    }

    fn gen_outcome(&mut self, id_hint: u32, fallible: bool, set_names: &[String], allow_switch: bool) -> Outcome {
        let _ = id_hint;
        let switch = if allow_switch && !set_names.is_empty() && self.rng.chance(self.cfg.p_switch, 100) {
            Some(self.rng.pick(set_names).clone())
        } else {
            None
        };
        let fin = if fallible && self.rng.chance(self.cfg.p_err, 100) {
            Fin::Err(self.rng.below(5) as u32)
        } else if self.rng.chance(self.cfg.p_continue, 100) {
            Fin::Continue
        } else {
            Fin::Return(self.rng.below(4) as u32)
        };
        // (an action may also reset the match and then return an error: the error then points at
        // the start of the *current*, i.e. emptied, match)
        let reset = self.rng.chance(self.cfg.p_reset, 100);
        Outcome { reset, switch, fin }
    }

    fn gen_guard(&mut self) -> Guard {
        match self.rng.below(4) {
            0 => Guard::PeekIs(self.letter()),
            1 => Guard::PeekNone,
            2 => Guard::LenParity(self.rng.below(2) as u8),
            _ => Guard::CounterParity(self.rng.below(2) as u8),
        }
    }

    pub fn gen_action(&mut self, error_type: bool, set_names: &[String], allow_switch: bool) -> Action {
        let mut w = self.cfg.w_act;
        if !error_type {
            w[3] = 0;
        }
        match self.rng.weighted(&w) {
            0 => Action::Skip,
            1 => Action::Simple(self.rng.below(4) as u32),
            k => {
                let fallible = k == 3;
                let mut bs = vec![];
                if self.rng.chance(self.cfg.p_guarded, 100) {
                    let n = self.rng.range(1, 2);
                    for _ in 0..n {
                        bs.push((self.gen_guard(), self.gen_outcome(0, fallible, set_names, allow_switch)));
                    }
                }
                bs.push((Guard::Always, self.gen_outcome(0, fallible, set_names, allow_switch)));
                if fallible {
                    Action::Try(bs)
                } else {
                    Action::Do(bs)
                }
            }
        }
    }

    pub fn gen_rule(&mut self, error_type: bool, set_names: &[String], allow_switch: bool) -> Rule {
        let d = self.cfg.depth;
        let depth = self.rng.range(d.saturating_sub(2).max(0), d);
        let mut re = self.gen_nonnull(depth);
        if self.rng.chance(self.cfg.p_eoi_rule, 100) && self.rng.chance(self.cfg.p_eoi_mid, 100) {
            let x = self.gen_nonnull(1);
            let y = self.gen_atom();
            re = match self.rng.below(7) {
                0 => Re::cat(re, Re::cat(Re::Eoi, Re::opt(y))),
                1 => Re::cat(re, Re::cat(Re::alt(Re::Eoi, x), Re::star(y))),
                2 => Re::cat(re, Re::cat(Re::Eoi, y)),
                3 => Re::cat(re, Re::cat(Re::alt(Re::Eoi, x), y)),
                4 => Re::cat(Re::opt(Re::cat(re, Re::Eoi)), x),
                5 => Re::cat(Re::alt(Re::Eoi, x), Re::opt(y)),
                _ => Re::cat(re, Re::cat(Re::opt(Re::Eoi), Re::opt(y))),
            };
        } else if self.rng.chance(self.cfg.p_eoi_rule, 100) {
            re = match self.rng.below(4) {
                0 => Re::Eoi,
                1 => Re::cat(re, Re::Eoi),
                2 => Re::cat(re, Re::opt(Re::Eoi)),
                _ => {
                    let other = self.gen_nonnull(1);
                    Re::cat(re, Re::alt(Re::Eoi, other))
                }
            };
        }
        let ctx = if self.rng.chance(self.cfg.p_ctx, 100) {
            Some(self.gen_ctx())
        } else {
            None
        };
        Rule {
            id: 0,
            re,
            ctx,
            act: self.gen_action(error_type, set_names, allow_switch),
        }
    }

    pub fn gen_spec(&mut self) -> Spec {
        for _attempt in 0..200 {
            let n_sets = self.rng.range(self.cfg.n_sets.0, self.cfg.n_sets.1);
            let named = n_sets > 1 || !self.rng.chance(self.cfg.p_unnamed, 100);
            let error_type = self.cfg.w_act[3] > 0 && self.rng.chance(80, 100);
            let mut names: Vec<String> = vec!["Init".to_string()];
            let pool = ["A", "B", "C", "D", "E", "F", "G", "H"];
            let mut others: Vec<String> = pool.iter().take(n_sets - 1).map(|s| s.to_string()).collect();
            if self.cfg.shuffle_sets {
                self.rng.shuffle(&mut others);
            }
            names.extend(others);
            let mut sets = vec![];
            for (i, name) in names.iter().enumerate() {
                let lo = if i == 0 || !self.cfg.allow_empty_sets {
                    self.cfg.rules.0.max(1)
                } else {
                    self.cfg.rules.0
                };
                let n_rules = self.rng.range(lo, self.cfg.rules.1.max(lo));
                let mut entries = vec![];
                if self.cfg.cover_ctx && self.rng.chance(1, 3) && self.cfg.letters.len() >= 2 {
                    let mut ls = self.cfg.letters.clone();
                    self.rng.shuffle(&mut ls);
                    let k = self.rng.range(2, ls.len().min(3));
                    let chars: Vec<char> = ls[..k].to_vec();
                    let cover = if self.rng.chance(1, 2) {
                        let mut it = chars.iter();
                        let mut t = Re::Chr(*it.next().unwrap());
                        for c in it {
                            t = Re::alt(t, Re::Chr(*c));
                        }
                        t
                    } else {
                        Re::Set(chars.iter().map(|c| SetItem::C(*c)).collect())
                    };
                    let ctx = self.gen_ctx();
                    let act = self.gen_action(error_type, &names, named);
                    entries.push(Entry::Rule(Rule {
                        id: 0,
                        re: cover,
                        ctx: Some(ctx),
                        act,
                    }));
                    for c in chars {
                        if self.rng.chance(4, 5) {
                            let act = self.gen_action(error_type, &names, named);
                            entries.push(Entry::Rule(Rule {
                                id: 0,
                                re: Re::Chr(c),
                                ctx: None,
                                act,
                            }));
                        }
                    }
                }
                for _ in 0..n_rules {
                    entries.push(Entry::Rule(self.gen_rule(error_type, &names, named)));
                }
                sets.push(RuleSet {
                    pre_lets: vec![],
                    name: name.clone(),
                    entries,
                });
            }
            let mut spec = Spec {
                error_type,
                named,
                lets: vec![],
                sets,
            };
            spec.renumber();
            if self.rng.chance(self.cfg.p_let, 100) {
                let k = self.rng.range(1, 3);
                for _ in 0..k {
                    factor_let(&mut spec, self.rng);
                }
            }
            if check_wf(&spec).is_ok() {
                return spec;
            }
        }
        panic!("generator could not produce a well-formed spec");
    }
}

fn fam_hash(family: &str) -> u64 {
    crate::rng::hash64(family.as_bytes())
}

/// Deterministic spec for (family, seed, index).
/// Systematic (seed-independent) definitions for the renumbering of `$` edges when the automata of
/// several rule sets are concatenated: Init switches on 'x' / 'y' / 'z' into rule sets A, B, C; each
/// of them is one of a few tiny shapes, some ending in `$` after 0-3 characters, some plain
/// literals (accepting leaves right behind the entry state). Every ordered triple of the twelve shapes.
fn gen_eoiseq_spec(index: usize) -> Spec {
    let sw = |c: char, to: &str, reset: bool| Rule {
        id: 0,
        re: Re::Chr(c),
        ctx: None,
        act: Action::Do(vec![(
            Guard::Always,
            Outcome {
                reset,
                switch: Some(to.to_string()),
                fin: Fin::Continue,
            },
        )]),
    };
    let back = |v: u32| {
        Action::Do(vec![(
            Guard::Always,
            Outcome {
                reset: false,
                switch: Some("Init".to_string()),
                fin: Fin::Return(v),
            },
        )])
    };
    // shapes of a non-Init rule set (regexes of its rules, in order)
    let shapes: Vec<Vec<Re>> = vec![
        vec![Re::cat(Re::Chr('a'), Re::Eoi)],
        vec![Re::cat(Re::str("ab"), Re::Eoi)],
        vec![Re::cat(Re::str("abc"), Re::Eoi)],
        vec![Re::cat(Re::star(Re::Chr('a')), Re::alt(Re::Chr('\n'), Re::Eoi))],
        vec![Re::cat(Re::plus(Re::Chr('a')), Re::opt(Re::Eoi)), Re::Chr('b')],
        vec![Re::Chr('c')],
        vec![Re::str("cd"), Re::Chr('a')],
        vec![Re::plus(Re::Chr('c')), Re::cat(Re::Chr('a'), Re::cat(Re::Chr('b'), Re::Eoi))],
        vec![Re::Eoi, Re::Chr('a')],
        // the `$` target is also reachable through a character, from a state that is not the entry
        vec![Re::cat(Re::Chr('b'), Re::cat(Re::star(Re::Chr('a')), Re::alt(Re::Chr('\n'), Re::Eoi)))],
        vec![Re::cat(Re::str("ab"), Re::alt(Re::Chr('\n'), Re::Eoi)), Re::Chr('c')],
        vec![Re::Chr('c'), Re::Any],
    ];
    let n = shapes.len();
    let (i, j, k) = (index % n, (index / n) % n, (index / (n * n)) % n);
    let reset = (index / (n * n * n)) % 2 == 0;
    let mut sets = vec![RuleSet {
        pre_lets: vec![],
        name: "Init".to_string(),
        entries: vec![
            Entry::Rule(sw('x', "A", reset)),
            Entry::Rule(sw('y', "B", reset)),
            Entry::Rule(sw('z', "C", reset)),
            Entry::Rule(Rule { id: 0, re: Re::Chr(' '), ctx: None, act: Action::Skip }),
        ],
    }];
    for (name, sh) in [("A", i), ("B", j), ("C", k)] {
        let mut entries = vec![];
        for (q, re) in shapes[sh].iter().enumerate() {
            entries.push(Entry::Rule(Rule { id: 0, re: re.clone(), ctx: None, act: back(q as u32) }));
        }
        sets.push(RuleSet { pre_lets: vec![], name: name.to_string(), entries });
    }
    let mut spec = Spec { error_type: false, named: true, lets: vec![], sets };
    spec.renumber();
    spec
}

pub fn gen_family_spec(family: &str, seed: u64, index: usize) -> Spec {
    match family {
        "eoiseq" => gen_eoiseq_spec(index),
        "class" => {
            let mut rng = Rng::derive(seed, &[fam_hash(family), (index / 3) as u64]);
            let cfg = family_cfg(family, &mut rng);
            let mut g = Gen { rng: &mut rng, cfg };
            gen_class_spec(&mut g, index % 3)
        }
        "langx" => {
            // bounded-exhaustive trees (seed-independent below the enumeration bound)
            let atoms = lang_atoms();
            let mut memo = vec![];
            let mut all = vec![];
            for k in 0..=2 {
                all.extend(enum_trees(k, &atoms, &mut memo));
            }
            if index < all.len() {
                single_rule_spec(&all[index])
            } else {
                let mut rng = Rng::derive(seed, &[fam_hash(family), index as u64]);
                let t3 = enum_trees(3, &atoms, &mut memo);
                single_rule_spec(rng.pick(&t3))
            }
        }
        "precx" => {
            let atoms = prec_atoms();
            let mut memo = vec![];
            let mut all = vec![];
            for k in 0..=2 {
                all.extend(enum_prec_trees(k, &atoms, &mut memo));
            }
            if index < all.len() {
                single_rule_spec(&all[index])
            } else {
                let mut rng = Rng::derive(seed, &[fam_hash(family), index as u64]);
                if rng.chance(2, 3) {
                    single_rule_spec(&templated_prec_tree(&mut rng, &atoms))
                } else {
                    let k = rng.range(3, 6);
                    single_rule_spec(&random_prec_tree(&mut rng, k, &atoms))
                }
            }
        }
        _ => {
            let mut rng = Rng::derive(seed, &[fam_hash(family), index as u64]);
            let cfg = family_cfg(family, &mut rng);
            let mut g = Gen { rng: &mut rng, cfg };
            match family {
                "rulesets" => {
                    // one third of the definitions end with rule sets that have NO terminal accepting
                    // state (every rule ends in a loop), so that no removed state follows their entry
                    let mut spec = g.gen_spec();
                    let roll = g.rng.below(6);
                    let k = if roll < 2 { 1 } else if roll == 2 { 2 } else { 0 };
                    let n = spec.sets.len();
                    for si in n.saturating_sub(k)..n {
                        if si == 0 {
                            continue;
                        }
                        let l = g.cfg.letters[g.rng.below(g.cfg.letters.len())];
                        for e in spec.sets[si].entries.iter_mut() {
                            if let Entry::Rule(r) = e {
                                if !contains_eoi(&r.re, &Env::new()) {
                                    r.re = Re::cat(r.re.clone(), Re::plus(Re::Chr(l)));
                                }
                            }
                        }
                    }
                    if check_wf(&spec).is_ok() {
                        spec
                    } else {
                        g.gen_spec()
                    }
                }
                "recover" => gen_recover_spec(&mut g),
                "scope" => gen_scope_spec(&mut g),
                "realistic" => gen_realistic_spec(&mut g),
                _ => g.gen_spec(),
            }
        }
    }
}

pub fn langx_exhaustive_len() -> usize {
    let atoms = lang_atoms();
    let mut memo = vec![];
    (0..=2).map(|k| enum_trees(k, &atoms, &mut memo).len()).sum()
}

pub fn precx_exhaustive_len() -> usize {
    let atoms = prec_atoms();
    let mut memo = vec![];
    (0..=2).map(|k| enum_prec_trees(k, &atoms, &mut memo).len()).sum()
}

/// Class family: the same class expression E (chosen by index / 3) in three codegen shapes:
/// shape 0 `E = t` (per-range accept arms), shape 1 `E '!' = t` (guard chain or search table on
/// the way to a further state), shape 2 `'?' > E = t` (right-context function).
fn gen_class_spec(g: &mut Gen, shape: usize) -> Spec {
    let env = Env::new();
    // only built-ins whose tables are exact today (the content of the Unicode-dependent ones is
    // C13's business; `whitespace` has 10 ranges and forces the search-table path)
    g.cfg.builtins = vec![
        "ascii_lowercase",
        "ascii_digit",
        "ascii_alphabetic",
        "ascii_hexdigit",
        "ascii_punctuation",
        "control",
        "whitespace",
        "whitespace",
    ];
    // hostile letters
    let hostile = ['\u{0}', '\u{7F}', '\u{D7FF}', '\u{E000}', '\u{10FFFF}', '\u{10FFFE}', 'é', '0', '9', 'z'];
    if g.rng.chance(1, 3) {
        let mut ls = g.cfg.letters.clone();
        for _ in 0..3 {
            ls.push(*g.rng.pick(&hostile));
        }
        ls.sort();
        ls.dedup();
        g.cfg.letters = ls;
    }
    for _ in 0..100 {
        let depth = g.rng.range(1, 3);
        let e = g.gen_class(depth);
        if !matches!(e, Re::Diff(_, _) | Re::Alt(_, _)) && g.rng.chance(2, 3) {
            continue;
        }
        if class_size(&e, &env) == 0 {
            continue;
        }
        let rule = match shape {
            0 => Rule {
                id: 0,
                re: e.clone(),
                ctx: None,
                act: Action::Simple(0),
            },
            1 => Rule {
                id: 0,
                re: Re::cat(e.clone(), Re::Chr('!')),
                ctx: None,
                act: Action::Simple(1),
            },
            _ => Rule {
                id: 0,
                re: Re::Chr('?'),
                ctx: Some(e.clone()),
                act: Action::Simple(2),
            },
        };
        let mut spec = Spec::single(vec![rule]);
        spec.renumber();
        if check_wf(&spec).is_ok() {
            return spec;
        }
    }
    panic!("class generator failed");
}

/// Recover family: failures inside non-Init rule sets, followed by tokens that are lexable in Init
/// and (differently) in the abandoned rule set, so that a silent return is visible.
fn gen_recover_spec(g: &mut Gen) -> Spec {
    loop {
        let mut spec = g.gen_spec();
        // make sure Init has a rule that switches, and that both Init and the other sets have a rule
        // for the same single letter with different rule ids (always true: ids are global).
        let names: Vec<String> = spec.sets.iter().map(|s| s.name.clone()).collect();
        let target = names[g.rng.range(1, names.len() - 1)].clone();
        let l = g.cfg.letters[0];
        let sw = Rule {
            id: 0,
            re: Re::Chr('['),
            ctx: None,
            act: Action::Do(vec![(
                Guard::Always,
                Outcome {
                    reset: g.rng.chance(1, 2),
                    switch: Some(target.clone()),
                    fin: if g.rng.chance(1, 2) {
                        Fin::Continue
                    } else {
                        Fin::Return(9)
                    },
                },
            )]),
        };
        spec.sets[0].entries.insert(0, Entry::Rule(sw));
        // half of the definitions give Init a `$` rule: what follows a failure on the very last
        // character is then observable (Init must still see the end of the input)
        if g.rng.chance(1, 2) {
            let at = g.rng.range(0, spec.sets[0].entries.len());
            spec.sets[0].entries.insert(
                at,
                Entry::Rule(Rule {
                    id: 0,
                    re: Re::Eoi,
                    ctx: None,
                    act: Action::Do(vec![(Guard::Always, Outcome::ret(5))]),
                }),
            );
        }
        for s in spec.sets.iter_mut() {
            if g.rng.chance(2, 3) {
                s.entries.push(Entry::Rule(Rule {
                    id: 0,
                    re: Re::plus(Re::Chr(l)),
                    ctx: None,
                    act: Action::Do(vec![(Guard::Always, Outcome::ret(7))]),
                }));
            }
        }
        spec.renumber();
        if check_wf(&spec).is_ok() {
            return spec;
        }
    }
}

// ---------------------------------------------------------------------------------------------
// let factoring

fn subtree_paths(re: &Re, path: &mut Vec<u8>, out: &mut Vec<Vec<u8>>) {
    out.push(path.clone());
    match re {
        Re::Star(a) | Re::Plus(a) | Re::Opt(a) => {
            path.push(0);
            subtree_paths(a, path, out);
            path.pop();
        }
        Re::Cat(a, b) | Re::Alt(a, b) | Re::Diff(a, b) => {
            path.push(0);
            subtree_paths(a, path, out);
            path.pop();
            path.push(1);
            subtree_paths(b, path, out);
            path.pop();
        }
        _ => {}
    }
}

fn get_at<'r>(re: &'r Re, path: &[u8]) -> &'r Re {
    if path.is_empty() {
        return re;
    }
    match re {
        Re::Star(a) | Re::Plus(a) | Re::Opt(a) => get_at(a, &path[1..]),
        Re::Cat(a, b) | Re::Alt(a, b) | Re::Diff(a, b) => {
            if path[0] == 0 {
                get_at(a, &path[1..])
            } else {
                get_at(b, &path[1..])
            }
        }
        _ => re,
    }
}

fn replace_at(re: &mut Re, path: &[u8], new: Re) {
    if path.is_empty() {
        *re = new;
        return;
    }
    match re {
        Re::Star(a) | Re::Plus(a) | Re::Opt(a) => replace_at(a, &path[1..], new),
        Re::Cat(a, b) | Re::Alt(a, b) | Re::Diff(a, b) => {
            if path[0] == 0 {
                replace_at(a, &path[1..], new)
            } else {
                replace_at(b, &path[1..], new)
            }
        }
        _ => {}
    }
}

fn fresh_name(spec: &Spec) -> String {
    let mut used = std::collections::BTreeSet::new();
    for (n, _) in &spec.lets {
        used.insert(n.clone());
    }
    for s in &spec.sets {
        for (n, _) in &s.pre_lets {
            used.insert(n.clone());
        }
        for e in &s.entries {
            if let Entry::Let(n, _) = e {
                used.insert(n.clone());
            }
        }
    }
    for i in 0.. {
        let n = format!("v{}", i);
        if !used.contains(&n) {
            return n;
        }
    }
    unreachable!()
}

/// Hoist one random subtree of one random rule (regex or context) into a `let` (top-level when
/// the spec is named and a coin says so, otherwise local to the rule set, right before the rule).
pub fn factor_let(spec: &mut Spec, rng: &mut Rng) -> bool {
    let mut rule_pos: Vec<(usize, usize)> = vec![];
    for (si, s) in spec.sets.iter().enumerate() {
        for (ei, e) in s.entries.iter().enumerate() {
            if let Entry::Rule(_) = e {
                rule_pos.push((si, ei));
            }
        }
    }
    if rule_pos.is_empty() {
        return false;
    }
    let (si, ei) = *rng.pick(&rule_pos);
    let env = spec.bindings_at(si, ei);
    let name = fresh_name(spec);
    let in_ctx;
    let (sub, path) = {
        let r = match &spec.sets[si].entries[ei] {
            Entry::Rule(r) => r,
            _ => unreachable!(),
        };
        in_ctx = r.ctx.is_some() && rng.chance(1, 3);
        let target = if in_ctx { r.ctx.as_ref().unwrap() } else { &r.re };
        let mut paths = vec![];
        subtree_paths(target, &mut vec![], &mut paths);
        let path = rng.pick(&paths).clone();
        (get_at(target, &path).clone(), path)
    };
    if matches!(sub, Re::Var(_)) {
        return false;
    }
    // A `$` inside a let is fine as long as the position stays at the tail; hoisting does not move it.
    let _ = contains_eoi(&sub, &env);
    // hoisting a class sub-expression of a `#` keeps it a class expression through the variable
    let _ = is_class_expr(&sub, &env);
    if let Entry::Rule(r) = &mut spec.sets[si].entries[ei] {
        let target = if in_ctx { r.ctx.as_mut().unwrap() } else { &mut r.re };
        replace_at(target, &path, Re::Var(name.clone()));
    }
    let top = spec.named && rng.chance(1, 2);
    if top {
        // top-level lets may only refer to earlier top-level lets: the hoisted subtree may mention
        // set-local variables; if so keep it local
        let mut mentions_local = false;
        let top_names: Vec<String> = spec.lets.iter().map(|(n, _)| n.clone()).collect();
        sub.visit(&mut |x| {
            if let Re::Var(v) = x {
                if !top_names.contains(v) {
                    mentions_local = true;
                }
            }
        });
        if !mentions_local {
            spec.lets.push((name, sub));
            return true;
        }
    }
    spec.sets[si].entries.insert(ei, Entry::Let(name, sub));
    true
}

// ---------------------------------------------------------------------------------------------
// bounded-exhaustive tree enumeration (C02 / C16)

pub fn lang_atoms() -> Vec<Re> {
    vec![
        Re::Chr('a'),
        Re::Chr('b'),
        Re::range('a', 'b'),
        Re::range('a', 'c'),
        Re::Any,
        Re::str("ab"),
        Re::bi("ascii_lowercase"),
    ]
}

/// All trees with exactly `k` operators over `atoms` (operators: * + ? concat |).
pub fn enum_trees(k: usize, atoms: &[Re], memo: &mut Vec<Vec<Re>>) -> Vec<Re> {
    if memo.len() > k {
        return memo[k].clone();
    }
    while memo.len() <= k {
        let n = memo.len();
        let mut v = vec![];
        if n == 0 {
            v.extend(atoms.iter().cloned());
        } else {
            for t in memo[n - 1].clone() {
                v.push(Re::star(t.clone()));
                v.push(Re::plus(t.clone()));
                v.push(Re::opt(t));
            }
            for i in 0..n {
                let j = n - 1 - i;
                for a in memo[i].clone() {
                    for b in memo[j].clone() {
                        v.push(Re::cat(a.clone(), b.clone()));
                        v.push(Re::alt(a.clone(), b.clone()));
                    }
                }
            }
        }
        memo.push(v);
    }
    memo[k].clone()
}

pub fn prec_atoms() -> Vec<Re> {
    vec![
        Re::Chr('a'),
        Re::Chr('b'),
        Re::range('a', 'b'),
        Re::range('b', 'c'),
        Re::Any,
    ]
}

fn is_plain_class(re: &Re) -> bool {
    let env = Env::new();
    is_class_expr(re, &env)
}

/// Trees with exactly `k` operators over * + ? concat | and # (the latter only between class
/// expressions with a non-empty result).
pub fn enum_prec_trees(k: usize, atoms: &[Re], memo: &mut Vec<Vec<Re>>) -> Vec<Re> {
    let env = Env::new();
    while memo.len() <= k {
        let n = memo.len();
        let mut v = vec![];
        if n == 0 {
            v.extend(atoms.iter().cloned());
        } else {
            for t in memo[n - 1].clone() {
                v.push(Re::star(t.clone()));
                v.push(Re::plus(t.clone()));
                v.push(Re::opt(t));
            }
            for i in 0..n {
                let j = n - 1 - i;
                for a in memo[i].clone() {
                    for b in memo[j].clone() {
                        v.push(Re::cat(a.clone(), b.clone()));
                        v.push(Re::alt(a.clone(), b.clone()));
                        if is_plain_class(&a) && is_plain_class(&b) {
                            let d = Re::diff(a.clone(), b.clone());
                            if class_size(&d, &env) > 0 {
                                v.push(d);
                            }
                        }
                    }
                }
            }
        }
        memo.push(v);
    }
    memo[k].clone()
}

pub fn random_prec_tree(rng: &mut Rng, ops: usize, atoms: &[Re]) -> Re {
    let env = Env::new();
    if ops == 0 {
        return rng.pick(atoms).clone();
    }
    match rng.weighted(&[3, 4, 4, 4]) {
        0 => {
            let t = random_prec_tree(rng, ops - 1, atoms);
            match rng.below(3) {
                0 => Re::star(t),
                1 => Re::plus(t),
                _ => Re::opt(t),
            }
        }
        1 => {
            let i = rng.below(ops);
            Re::cat(random_prec_tree(rng, i, atoms), random_prec_tree(rng, ops - 1 - i, atoms))
        }
        2 => {
            let i = rng.below(ops);
            Re::alt(random_prec_tree(rng, i, atoms), random_prec_tree(rng, ops - 1 - i, atoms))
        }
        _ => {
            // difference between two small class expressions
            for _ in 0..10 {
                let a = random_class_tree(rng, (ops - 1) / 2, atoms);
                let b = random_class_tree(rng, (ops - 1) - (ops - 1) / 2, atoms);
                let d = Re::diff(a, b);
                if class_size(&d, &env) > 0 {
                    return d;
                }
            }
            Re::diff(Re::Any, Re::Chr('a'))
        }
    }
}

/// Trees built around the places where the grammar's precedence and associativity decide the
/// reading: postfix after a concatenation / a difference, chained and nested differences,
/// alternation next to concatenation.
pub fn templated_prec_tree(rng: &mut Rng, atoms: &[Re]) -> Re {
    let env = Env::new();
    let small = |rng: &mut Rng| -> Re {
        let k = rng.below(2);
        random_prec_tree(rng, k, atoms)
    };
    let post = |rng: &mut Rng, t: Re| -> Re {
        match rng.below(3) {
            0 => Re::star(t),
            1 => Re::plus(t),
            _ => Re::opt(t),
        }
    };
    let cls = |rng: &mut Rng| -> Re { rng.pick(atoms).clone() };
    for _ in 0..50 {
        let t = match rng.below(14) {
            11 | 12 => {
                // a stacked postfix pair as a UNIT between two required characters: `'a' (x?)+ 'b'`;
                // the inner repetition may match nothing, so the outer one must too (round 10:
                // `(r?)+` compiled as `r+` is only visible when zero occurrences are followed by
                // required text)
                let x = small(rng);
                let inner = post(rng, x);
                let outer = post(rng, inner);
                Re::cat(Re::cat(cls(rng), outer), cls(rng))
            }
            13 => {
                // an alternation as a unit under a postfix operator between required characters
                let a = Re::alt(small(rng), small(rng));
                let pa = post(rng, a);
                Re::cat(cls(rng), Re::cat(pa, cls(rng)))
            }
            9 | 10 => {
                // two different postfix operators stacked directly on one operand: `x+?`, `x?*`, ...
                let x = small(rng);
                let inner = post(rng, x);
                let mut outer = post(rng, inner.clone());
                for _ in 0..4 {
                    if std::mem::discriminant(&outer) != std::mem::discriminant(&inner) {
                        break;
                    }
                    outer = post(rng, inner.clone());
                }
                if rng.chance(1, 2) {
                    Re::cat(outer, small(rng))
                } else {
                    outer
                }
            }
            0 => {
                let (x, y) = (small(rng), small(rng));
                let py = post(rng, y);
                Re::cat(x, py)
            }
            1 => {
                let (x, y) = (small(rng), small(rng));
                let c = Re::cat(x, y);
                post(rng, c)
            }
            2 => Re::alt(Re::cat(small(rng), small(rng)), small(rng)),
            3 => Re::cat(small(rng), Re::alt(small(rng), small(rng))),
            4 => Re::cat(Re::alt(small(rng), small(rng)), small(rng)),
            5 => {
                let d = Re::diff(cls(rng), cls(rng));
                post(rng, d)
            }
            6 => Re::diff(Re::diff(cls(rng), cls(rng)), cls(rng)),
            7 => Re::diff(cls(rng), Re::diff(cls(rng), cls(rng))),
            _ => {
                let d = Re::diff(cls(rng), cls(rng));
                let pd = post(rng, d);
                Re::cat(small(rng), Re::alt(pd, small(rng)))
            }
        };
        // every difference in the tree must be a non-empty class
        let mut ok = true;
        t.visit(&mut |x| {
            if let Re::Diff(_, _) = x {
                if !is_class_expr(x, &env) || class_size(x, &env) == 0 {
                    ok = false;
                }
            }
        });
        if ok {
            return t;
        }
    }
    Re::cat(Re::Chr('a'), Re::star(Re::Chr('b')))
}

fn random_class_tree(rng: &mut Rng, ops: usize, atoms: &[Re]) -> Re {
    if ops == 0 {
        return rng.pick(atoms).clone();
    }
    let i = rng.below(ops);
    let a = random_class_tree(rng, i, atoms);
    let b = random_class_tree(rng, ops - 1 - i, atoms);
    if rng.chance(1, 2) {
        Re::alt(a, b)
    } else {
        Re::diff(a, b)
    }
}

/// One-rule spec for a regex tree; nullable trees are followed by a fresh letter.
pub fn single_rule_spec(re: &Re) -> Spec {
    let env = Env::new();
    let re = if nullable_chars(re, &env) {
        Re::cat(re.clone(), Re::Chr('d'))
    } else {
        re.clone()
    };
    let mut s = Spec::single(vec![Rule {
        id: 0,
        re,
        ctx: None,
        act: Action::Simple(0),
    }]);
    s.renumber();
    s
}

// ---------------------------------------------------------------------------------------------
// language-preserving rewrites (metamorphic partners)

/// Rewrite one random applicable node by a documented equivalence. Returns None if nothing applies.
pub fn equiv_rewrite(re: &Re, rng: &mut Rng) -> Option<(Re, &'static str)> {
    let mut paths = vec![];
    subtree_paths(re, &mut vec![], &mut paths);
    rng.shuffle(&mut paths);
    for p in paths {
        let sub = get_at(re, &p).clone();
        let new: Option<(Re, &'static str)> = match &sub {
            Re::Plus(a) if !has_eoi_shallow(a) => Some((Re::cat((**a).clone(), Re::star((**a).clone())), "r+ = r r*")),
            Re::Alt(a, b) => Some((Re::alt((**b).clone(), (**a).clone()), "a|b = b|a")),
            Re::Str(cs) if cs.len() >= 2 => {
                let mut it = cs.iter();
                let mut t = Re::Chr(*it.next().unwrap());
                for c in it {
                    t = Re::cat(t, Re::Chr(*c));
                }
                Some((t, "string = concatenation of its characters"))
            }
            Re::Star(a) if !has_eoi_shallow(a) => Some((Re::opt(Re::plus((**a).clone())), "r* = (r+)?")),
            Re::Opt(a) if matches!(**a, Re::Chr(_) | Re::Set(_)) => None,
            _ => None,
        };
        if let Some((n, why)) = new {
            let mut out = re.clone();
            replace_at(&mut out, &p, n);
            return Some((out, why));
        }
    }
    None
}

fn has_eoi_shallow(re: &Re) -> bool {
    let mut f = false;
    re.visit(&mut |x| {
        if matches!(x, Re::Eoi) {
            f = true
        }
    });
    f
}

// ---------------------------------------------------------------------------------------------
// Variants of one case

#[derive(Clone, Debug)]
pub struct Variant {
    pub spec: Spec,
    pub opts: PrintOpts,
    /// what distinguishes this variant from variant 0
    pub label: String,
}

#[derive(Clone, Debug)]
pub struct Case {
    pub family: String,
    pub index: usize,
    pub variants: Vec<Variant>,
}

pub fn mk_opts(name: &str, paren: Paren, desugar: bool, seed: u64) -> PrintOpts {
    let mut o = PrintOpts::new(name);
    o.paren = paren;
    o.desugar = desugar;
    o.seed = seed;
    o
}


// ---------------------------------------------------------------------------------------------
// scoping family (C16): the same local name bound differently in different rule sets, top-level
// names used everywhere

fn gen_scope_spec(g: &mut Gen) -> Spec {
    for _ in 0..200 {
        g.cfg.letters = vec!['a', 'b', 'c'];
        g.cfg.depth = 2;
        let n_sets = g.rng.range(2, 4);
        let names: Vec<String> = ["Init", "A", "B", "C"].iter().take(n_sets).map(|s| s.to_string()).collect();
        let top_re = g.gen_nonnull(1);
        let mut sets = vec![];
        // from rule set `cut` on, `x` is a TOP-LEVEL let written between two rule sets (visible only
        // in later rule sets); before it, `x` is local to each rule set
        let cut = if g.rng.chance(1, 2) { g.rng.range(1, n_sets) } else { n_sets + 1 };
        for (i, name) in names.iter().enumerate() {
            let mut entries = vec![];
            let mut pre_lets = vec![];
            if i == cut {
                pre_lets.push(("x".to_string(), g.gen_nonnull(1)));
            }
            // local binding `x` differs per set
            let local = g.gen_nonnull(1);
            let has_local = i < cut && g.rng.chance(4, 5);
            if has_local {
                entries.push(Entry::Let("x".to_string(), local));
            }
            let x_visible = has_local || i >= cut;
            // a second local that refers to the first and to the top-level one
            let has_y = x_visible && g.rng.chance(1, 2);
            if has_y {
                entries.push(Entry::Let(
                    "y".to_string(),
                    Re::alt(Re::cat(Re::var("x"), Re::var("t")), g.gen_nonnull(0)),
                ));
            }
            let mk = |re: Re, sw: Option<String>, v: u32| Rule {
                id: 0,
                re,
                ctx: None,
                act: Action::Do(vec![(
                    Guard::Always,
                    Outcome {
                        reset: false,
                        switch: sw,
                        fin: Fin::Return(v),
                    },
                )]),
            };
            let next = names[(i + 1) % names.len()].clone();
            if x_visible {
                entries.push(Entry::Rule(mk(Re::cat(Re::var("x"), Re::Chr('c')), Some(next.clone()), 1)));
                // the same syntactic right context `> $x` in every rule set, each time with that rule
                // set's own binding of `x`
                let mut r = mk(Re::Chr('a'), None, 5);
                r.ctx = Some(Re::var("x"));
                entries.push(Entry::Rule(r));
            }
            if has_y {
                entries.push(Entry::Rule(mk(Re::plus(Re::var("y")), None, 2)));
            }
            entries.push(Entry::Rule(mk(Re::cat(Re::var("t"), g.gen_atom()), Some(next.clone()), 3)));
            entries.push(Entry::Rule(mk(g.gen_nonnull(1), Some(next), 4)));
            sets.push(RuleSet {
                pre_lets,
                name: name.clone(),
                entries,
            });
        }
        let mut spec = Spec {
            error_type: false,
            named: true,
            lets: vec![("t".to_string(), top_re)],
            sets,
        };
        spec.renumber();
        if check_wf(&spec).is_ok() {
            return spec;
        }
    }
    panic!("scope generator failed");
}

// ---------------------------------------------------------------------------------------------
// realistic family: 20-60 rules, keywords, identifiers, numbers, operators, strings via a rule
// set, comments, one right context

fn gen_realistic_spec(g: &mut Gen) -> Spec {
    let rng = &mut *g.rng;
    let ret = |v: u32| Action::Do(vec![(Guard::Always, Outcome::ret(v))]);
    let mut init: Vec<Entry> = vec![];
    let use_xid = rng.chance(1, 2);
    // lets
    let ident_start = if use_xid {
        Re::bi("XID_Start")
    } else {
        Re::Set(vec![SetItem::R('a', 'z'), SetItem::R('A', 'Z'), SetItem::C('_')])
    };
    let ident_cont = if use_xid {
        Re::bi("XID_Continue")
    } else {
        Re::Set(vec![SetItem::R('a', 'z'), SetItem::R('A', 'Z'), SetItem::R('0', '9'), SetItem::C('_')])
    };
    let lets = vec![
        ("ws".to_string(), Re::Set(vec![SetItem::C(' '), SetItem::C('\t'), SetItem::C('\n')])),
        ("digit".to_string(), Re::range('0', '9')),
        ("id_start".to_string(), ident_start),
        ("id_cont".to_string(), ident_cont),
    ];
    init.push(Entry::Rule(Rule {
        id: 0,
        re: Re::plus(Re::var("ws")),
        ctx: None,
        act: Action::Skip,
    }));
    // keywords
    let n_kw = rng.range(8, 35);
    let mut kws = std::collections::BTreeSet::new();
    while kws.len() < n_kw {
        let n = rng.range(2, 6);
        let w: String = (0..n).map(|_| *rng.pick(&['a', 'b', 'c', 'd', 'e', 'f', 'i', 'n', 't'])).collect();
        kws.insert(w);
    }
    for (i, w) in kws.iter().enumerate() {
        init.push(Entry::Rule(Rule {
            id: 0,
            re: Re::str(w),
            ctx: None,
            act: if i % 3 == 0 { ret(1) } else { Action::Simple(1) },
        }));
    }
    // identifiers
    init.push(Entry::Rule(Rule {
        id: 0,
        re: Re::cat(Re::var("id_start"), Re::star(Re::var("id_cont"))),
        ctx: None,
        act: ret(2),
    }));
    // numbers: integer (only when not followed by an identifier start), float, hex
    init.push(Entry::Rule(Rule {
        id: 0,
        re: Re::plus(Re::var("digit")),
        ctx: Some(Re::alt(Re::diff(Re::Any, Re::Set(vec![SetItem::R('a', 'z')])), Re::Eoi)),
        act: ret(3),
    }));
    init.push(Entry::Rule(Rule {
        id: 0,
        re: Re::cat(
            Re::plus(Re::var("digit")),
            Re::cat(Re::Chr('.'), Re::plus(Re::var("digit"))),
        ),
        ctx: None,
        act: ret(3),
    }));
    init.push(Entry::Rule(Rule {
        id: 0,
        re: Re::cat(Re::str("0x"), Re::plus(Re::bi("ascii_hexdigit"))),
        ctx: None,
        act: ret(3),
    }));
    // operators
    let ops = ["+", "-", "*", "/", "==", "=", "<=", "<", ">=", ">", "->", "=>", "::", ":", ";", ",", ".", "..", "...", "(", ")", "{", "}", "&&", "&", "||", "|", "!", "!="];
    let n_ops = rng.range(6, ops.len());
    for o in ops.iter().take(n_ops) {
        init.push(Entry::Rule(Rule {
            id: 0,
            re: if o.chars().count() == 1 { Re::Chr(o.chars().next().unwrap()) } else { Re::str(o) },
            ctx: None,
            act: Action::Simple(4),
        }));
    }
    // strings and comments
    init.push(Entry::Rule(Rule {
        id: 0,
        re: Re::Chr('"'),
        ctx: None,
        act: Action::Do(vec![(
            Guard::Always,
            Outcome {
                reset: false,
                switch: Some("Str".into()),
                fin: Fin::Continue,
            },
        )]),
    }));
    init.push(Entry::Rule(Rule {
        id: 0,
        re: Re::str("/*"),
        ctx: None,
        act: Action::Do(vec![(
            Guard::Always,
            Outcome {
                reset: true,
                switch: Some("Cmt".into()),
                fin: Fin::Continue,
            },
        )]),
    }));
    init.push(Entry::Rule(Rule {
        id: 0,
        re: Re::cat(Re::str("//"), Re::star(Re::diff(Re::Any, Re::Chr('\n')))),
        ctx: None,
        act: Action::Skip,
    }));
    let strs = vec![
        Entry::Rule(Rule {
            id: 0,
            re: Re::str("\\\""),
            ctx: None,
            act: Action::Do(vec![(Guard::Always, Outcome::cont())]),
        }),
        Entry::Rule(Rule {
            id: 0,
            re: Re::Chr('"'),
            ctx: None,
            act: Action::Do(vec![(
                Guard::Always,
                Outcome {
                    reset: false,
                    switch: Some("Init".into()),
                    fin: Fin::Return(5),
                },
            )]),
        }),
        Entry::Rule(Rule {
            id: 0,
            re: Re::Any,
            ctx: None,
            act: Action::Do(vec![(Guard::Always, Outcome::cont())]),
        }),
    ];
    let cmt = vec![
        Entry::Rule(Rule {
            id: 0,
            re: Re::str("*/"),
            ctx: None,
            act: Action::Do(vec![(
                Guard::Always,
                Outcome {
                    reset: true,
                    switch: Some("Init".into()),
                    fin: Fin::Continue,
                },
            )]),
        }),
        Entry::Rule(Rule {
            id: 0,
            re: Re::Any,
            ctx: None,
            act: Action::Skip,
        }),
    ];
    let mut spec = Spec {
        error_type: false,
        named: true,
        lets,
        sets: vec![
            RuleSet {
                pre_lets: vec![],
                name: "Init".into(),
                entries: init,
            },
            RuleSet {
                pre_lets: vec![],
                name: "Str".into(),
                entries: strs,
            },
            RuleSet {
                pre_lets: vec![],
                name: "Cmt".into(),
                entries: cmt,
            },
        ],
    };
    spec.renumber();
    check_wf(&spec).expect("realistic spec must be well-formed");
    spec
}
