//! Well-formedness filter: the definitions inside the properties' quantifiers.

use crate::class::{builtin_pred, class_size, is_class_expr, Env};
use crate::spec::{Action, Entry, Fin, Guard, Re, SetItem, Spec};

/// Can `re` match the empty sequence of characters *without* consuming an end-of-input marker?
pub fn nullable_chars(re: &Re, env: &Env) -> bool {
    match re {
        Re::Chr(_) | Re::Set(_) | Re::Any | Re::Builtin(_) | Re::Diff(_, _) | Re::Eoi => false,
        Re::Str(cs) => cs.is_empty(),
        Re::Var(x) => env.get(x).map(|r| nullable_chars(r, env)).unwrap_or(false),
        Re::Star(_) | Re::Opt(_) => true,
        Re::Plus(a) => nullable_chars(a, env),
        Re::Cat(a, b) => nullable_chars(a, env) && nullable_chars(b, env),
        Re::Alt(a, b) => nullable_chars(a, env) || nullable_chars(b, env),
    }
}

pub fn contains_eoi(re: &Re, env: &Env) -> bool {
    match re {
        Re::Eoi => true,
        Re::Var(x) => env.get(x).map(|r| contains_eoi(r, env)).unwrap_or(false),
        Re::Star(a) | Re::Plus(a) | Re::Opt(a) => contains_eoi(a, env),
        Re::Cat(a, b) | Re::Alt(a, b) | Re::Diff(a, b) => contains_eoi(a, env) || contains_eoi(b, env),
        _ => false,
    }
}

/// `$` only as the last factor (possibly under `?` or as an alternative of the last factor).
pub fn eoi_at_tail_only(re: &Re, env: &Env) -> bool {
    match re {
        Re::Eoi => true,
        Re::Var(x) => env.get(x).map(|r| eoi_at_tail_only(r, env)).unwrap_or(true),
        Re::Star(a) | Re::Plus(a) => !contains_eoi(a, env),
        Re::Opt(a) => eoi_at_tail_only(a, env),
        Re::Cat(a, b) => !contains_eoi(a, env) && eoi_at_tail_only(b, env),
        Re::Alt(a, b) => eoi_at_tail_only(a, env) && eoi_at_tail_only(b, env),
        Re::Diff(a, b) => !contains_eoi(a, env) && !contains_eoi(b, env),
        _ => true,
    }
}

/// `$` anywhere except under `*` / `+`, and at most once on any path through the regex. NOT used by
/// `check_wf` (the properties define well-formed rules as having `$` only at the tail); kept for
/// exploration outside the properties' quantifier (gen.rs `p_eoi_mid`, 0 in every family).
pub fn eoi_linear(re: &Re, env: &Env) -> bool {
    match re {
        Re::Eoi => true,
        Re::Var(x) => env.get(x).map(|r| eoi_linear(r, env)).unwrap_or(true),
        Re::Star(a) | Re::Plus(a) => !contains_eoi(a, env),
        Re::Opt(a) => eoi_linear(a, env),
        Re::Cat(a, b) => eoi_linear(a, env) && eoi_linear(b, env) && !(contains_eoi(a, env) && contains_eoi(b, env)),
        Re::Alt(a, b) => eoi_linear(a, env) && eoi_linear(b, env),
        Re::Diff(a, b) => !contains_eoi(a, env) && !contains_eoi(b, env),
        _ => true,
    }
}

/// Right contexts: C04 quantifies over "right contexts built from any regex operators" and states
/// that "any regex may serve as a context", so `$` may repeat, sit under `*` / `+` or be followed by
/// further factors there; a class difference still cannot contain it.
pub fn eoi_ok_in_ctx(re: &Re, env: &Env) -> bool {
    match re {
        Re::Var(x) => env.get(x).map(|r| eoi_ok_in_ctx(r, env)).unwrap_or(true),
        Re::Star(a) | Re::Plus(a) | Re::Opt(a) => eoi_ok_in_ctx(a, env),
        Re::Cat(a, b) | Re::Alt(a, b) => eoi_ok_in_ctx(a, env) && eoi_ok_in_ctx(b, env),
        Re::Diff(a, b) => !contains_eoi(a, env) && !contains_eoi(b, env),
        _ => true,
    }
}

fn check_re(re: &Re, env: &Env, top: bool) -> Result<(), String> {
    // maximal class expressions must be non-empty and syntactically valid
    if is_class_expr(re, env) && !matches!(re, Re::Var(_)) {
        check_class_syntax(re, env)?;
        if class_size(re, env) == 0 {
            return Err(format!("empty class atom {:?}", re));
        }
        return Ok(());
    }
    let _ = top;
    match re {
        Re::Chr(_) | Re::Any | Re::Eoi => Ok(()),
        Re::Str(cs) => {
            if cs.is_empty() {
                Err("empty string literal".into())
            } else {
                Ok(())
            }
        }
        Re::Set(_) => check_class_syntax(re, env),
        Re::Builtin(n) => {
            if builtin_pred(n).is_none() {
                Err(format!("unknown builtin {}", n))
            } else {
                Ok(())
            }
        }
        Re::Var(x) => match env.get(x) {
            None => Err(format!("unbound variable {}", x)),
            Some(r) => check_re(r, env, false),
        },
        Re::Star(a) | Re::Plus(a) | Re::Opt(a) => check_re(a, env, false),
        Re::Cat(a, b) | Re::Alt(a, b) => {
            check_re(a, env, false)?;
            check_re(b, env, false)
        }
        Re::Diff(_, _) => Err(format!("operand of # is not a class: {:?}", re)),
    }
}

fn check_class_syntax(re: &Re, env: &Env) -> Result<(), String> {
    match re {
        Re::Chr(_) | Re::Any => Ok(()),
        Re::Set(items) => {
            if items.is_empty() {
                return Err("empty bracket set".into());
            }
            for it in items {
                if let SetItem::R(a, b) = it {
                    if a > b {
                        return Err("inverted range".into());
                    }
                }
            }
            Ok(())
        }
        Re::Builtin(n) => {
            if builtin_pred(n).is_none() {
                Err(format!("unknown builtin {}", n))
            } else {
                Ok(())
            }
        }
        Re::Var(x) => match env.get(x) {
            None => Err(format!("unbound variable {}", x)),
            Some(r) => check_class_syntax(r, env),
        },
        Re::Alt(a, b) | Re::Diff(a, b) => {
            check_class_syntax(a, env)?;
            check_class_syntax(b, env)
        }
        _ => Err(format!("not a class expression: {:?}", re)),
    }
}

pub fn check_wf(spec: &Spec) -> Result<(), String> {
    if spec.sets.is_empty() {
        return Err("no rule set".into());
    }
    if spec.sets[0].name != "Init" {
        return Err("first rule set must be Init".into());
    }
    if !spec.named && spec.sets.len() != 1 {
        return Err("unnamed spec with several sets".into());
    }
    if !spec.named && !spec.lets.is_empty() {
        return Err("unnamed spec keeps its lets inside the entry list".into());
    }
    for (i, s) in spec.sets.iter().enumerate() {
        if spec.sets[..i].iter().any(|t| t.name == s.name) {
            return Err(format!("rule set {} defined twice", s.name));
        }
    }
    // top-level lets: unique, bound before use
    let mut env = Env::new();
    for (n, r) in &spec.lets {
        if env.contains_key(n) {
            return Err(format!("variable {} defined twice", n));
        }
        check_let_body(r, &env)?;
        env.insert(n.clone(), r.clone());
    }
    let mut ids = std::collections::BTreeSet::new();
    let mut env = env;
    for set in &spec.sets {
        // top-level lets written before this rule set extend the top-level scope from here on
        for (n, r) in &set.pre_lets {
            if !spec.named {
                return Err("unnamed spec cannot have lets between rule sets".into());
            }
            if env.contains_key(n) {
                return Err(format!("variable {} defined twice", n));
            }
            check_let_body(r, &env)?;
            env.insert(n.clone(), r.clone());
        }
        let mut env = env.clone();
        for e in &set.entries {
            match e {
                Entry::Let(n, r) => {
                    if env.contains_key(n) {
                        return Err(format!("variable {} defined twice", n));
                    }
                    check_let_body(r, &env)?;
                    env.insert(n.clone(), r.clone());
                }
                Entry::Rule(r) => {
                    if !ids.insert(r.id) {
                        return Err(format!("duplicate rule id {}", r.id));
                    }
                    check_re(&r.re, &env, true)?;
                    if nullable_chars(&r.re, &env) {
                        return Err(format!("rule {} matches the empty string", r.id));
                    }
                    // the properties' own definition of well-formed (C01): `$` only at the tail of a rule
                    if !eoi_at_tail_only(&r.re, &env) {
                        return Err(format!("rule {}: $ not at tail", r.id));
                    }
                    if let Some(c) = &r.ctx {
                        check_re(c, &env, true)?;
                        if !eoi_ok_in_ctx(c, &env) {
                            return Err(format!("rule {}: $ inside a class difference of the context", r.id));
                        }
                    }
                    check_action(spec, &r.act)?;
                }
            }
        }
    }
    Ok(())
}

fn check_let_body(r: &Re, env: &Env) -> Result<(), String> {
    // a let body must itself be a valid regex fragment (it may be nullable)
    check_re(r, env, false)
}

fn check_action(spec: &Spec, a: &Action) -> Result<(), String> {
    match a {
        Action::Skip | Action::Simple(_) => Ok(()),
        Action::Do(bs) | Action::Try(bs) => {
            if matches!(a, Action::Try(_)) && !spec.error_type {
                return Err("=? without error type".into());
            }
            if bs.is_empty() || bs.last().unwrap().0 != Guard::Always {
                return Err("last branch must be unconditional".into());
            }
            for (_, o) in bs {
                if let Some(t) = &o.switch {
                    if !spec.named {
                        return Err("switch in unnamed spec".into());
                    }
                    if spec.set_index(t).is_none() {
                        return Err(format!("switch to unknown set {}", t));
                    }
                }
                if let Fin::Err(_) = o.fin {
                    if matches!(a, Action::Do(_)) {
                        return Err("Err outcome in infallible rule".into());
                    }

                }
            }
            Ok(())
        }
    }
}
