//! The reference model checked against expectations hard-coded in the repository's own tests
//! (transcribed as specs). `cargo test -p vmodel`.

use crate::reflex::{compile, Item, RefRun};
use crate::spec::{Action, Entry, Fin, Guard, Outcome, Re, Rule, RuleSet, SetItem, Spec};

fn ret(v: u32) -> Action {
    Action::Do(vec![(Guard::Always, Outcome::ret(v))])
}

fn rule(re: Re, ctx: Option<Re>, act: Action) -> Rule {
    Rule { id: 0, re, ctx, act }
}

fn single(rules: Vec<Rule>) -> Spec {
    let mut s = Spec::single(rules);
    s.renumber();
    s
}

/// Run the reference; render items compactly: `T<val>@<start>..<end>`, `E@<byte>`, `C<payload>@<byte>`.
fn lex(spec: &Spec, input: &str) -> Vec<String> {
    let mut c = compile(spec);
    let chars: Vec<char> = input.chars().collect();
    let mut rr = RefRun::new(&mut c, &chars, true, 0, true);
    let h = rr.run(chars.len() + 4);
    assert!(rr.cross_check_failures.is_empty(), "matchers disagree: {:?}", rr.cross_check_failures);
    let mut out: Vec<String> = h
        .items
        .iter()
        .map(|i| match i {
            Item::Tok { start, val, end, .. } => format!("T{}@{}..{}", val, start.byte, end.byte),
            Item::ErrInvalid { loc } => format!("E@{}", loc.byte),
            Item::ErrCustom { loc, payload } => format!("C{}@{}", payload, loc.byte),
        })
        .collect();
    if h.final_done {
        out.push("None".into());
    }
    out
}

#[test]
fn right_ctx_1() {
    let s = single(vec![rule(Re::Chr('a'), Some(Re::Chr('a')), Action::Simple(1))]);
    assert_eq!(lex(&s, "aa"), vec!["T1@0..1", "E@1", "None"]);
    assert_eq!(lex(&s, "ab")[0], "E@0");
}

#[test]
fn right_ctx_2() {
    let s = single(vec![rule(Re::Chr('a'), Some(Re::Any), Action::Simple(1))]);
    assert_eq!(&lex(&s, "aa")[..2], ["T1@0..1", "E@1"]);
    assert_eq!(&lex(&s, "ab")[..2], ["T1@0..1", "E@1"]);
    assert_eq!(lex(&s, "a")[0], "E@0");
}

#[test]
fn right_ctx_3_and_4() {
    let s = single(vec![rule(Re::Chr('a'), Some(Re::Eoi), Action::Simple(1))]);
    assert_eq!(lex(&s, "a"), vec!["T1@0..1", "None"]);
    assert_eq!(lex(&s, "ab")[0], "E@0");
    let s = single(vec![
        rule(Re::Chr('a'), Some(Re::Chr('a')), Action::Simple(1)),
        rule(Re::Chr('a'), Some(Re::Eoi), Action::Simple(2)),
    ]);
    assert_eq!(lex(&s, "a"), vec!["T2@0..1", "None"]);
    assert_eq!(lex(&s, "aa"), vec!["T1@0..1", "T2@1..2", "None"]);
}

#[test]
fn end_of_input_transition_1() {
    let s = single(vec![
        rule(Re::Eoi, None, Action::Simple(1)),
        rule(Re::Any, None, Action::Simple(2)),
        rule(Re::Chr('a'), None, Action::Simple(3)),
    ]);
    assert_eq!(lex(&s, ""), vec!["T1@0..0", "None"]);
    assert_eq!(lex(&s, "a"), vec!["T2@0..1", "T1@1..1", "None"]);
}

#[test]
fn issue_16_backtracking() {
    let s = single(vec![
        rule(Re::cat(Re::plus(Re::Chr('a')), Re::Chr('b')), None, ret(1)),
        rule(Re::Chr('a'), None, ret(2)),
    ]);
    assert_eq!(lex(&s, "aaaab"), vec!["T1@0..5", "None"]);
    assert_eq!(lex(&s, "aaaa"), vec!["T2@0..1", "T2@1..2", "T2@2..3", "T2@3..4", "None"]);
    let s = single(vec![
        rule(Re::str("xyzxyz"), None, ret(1)),
        rule(Re::str("xyz"), None, ret(2)),
        rule(Re::str("xya"), None, ret(3)),
    ]);
    assert_eq!(lex(&s, "xyzxya"), vec!["T2@0..3", "T3@3..6", "None"]);
}

#[test]
fn failure_confusion_3_1() {
    let s = single(vec![
        rule(Re::Chr(' '), None, Action::Simple(0)),
        rule(Re::str("ab"), None, Action::Simple(1)),
        rule(Re::Any, None, Action::Simple(2)),
    ]);
    let got: Vec<String> = lex(&s, "a ab abc").iter().map(|x| x[..2].to_string()).collect();
    assert_eq!(got, vec!["T2", "T0", "T1", "T0", "T1", "T2", "No"]);
}

#[test]
fn loc_tracking_and_rule_sets() {
    // Init{ _ => switch(Rule1) } Rule1{ '\n' => return, _ => continue, $ => return }
    let sw = Action::Do(vec![(
        Guard::Always,
        Outcome {
            reset: false,
            switch: Some("Rule1".into()),
            fin: Fin::Continue,
        },
    )]);
    let mut s = Spec {
        error_type: false,
        named: true,
        lets: vec![],
        sets: vec![
            RuleSet {
                pre_lets: vec![],
                name: "Init".into(),
                entries: vec![Entry::Rule(rule(Re::Any, None, sw))],
            },
            RuleSet {
                pre_lets: vec![],
                name: "Rule1".into(),
                entries: vec![
                    Entry::Rule(rule(Re::Chr('\n'), None, ret(1))),
                    Entry::Rule(rule(Re::Any, None, Action::Do(vec![(Guard::Always, Outcome::cont())]))),
                    Entry::Rule(rule(Re::Eoi, None, ret(2))),
                ],
            },
        ],
    };
    s.renumber();
    let input = "Ｈｅｌｌｏ,\nｗｏｒｌｄ!!!";
    let mut c = compile(&s);
    let chars: Vec<char> = input.chars().collect();
    let mut rr = RefRun::new(&mut c, &chars, true, 0, true);
    let h = rr.run(100);
    match &h.items[0] {
        Item::Tok { start, end, .. } => {
            assert_eq!((start.line, start.col, start.byte), (0, 0, 0));
            assert_eq!((end.line, end.col, end.byte), (1, 0, 17));
        }
        o => panic!("{:?}", o),
    }
    match &h.items[1] {
        Item::Tok { start, end, .. } => {
            assert_eq!((start.line, start.col, start.byte), (1, 0, 17));
            assert_eq!((end.line, end.col, end.byte), (1, 13, 35));
        }
        o => panic!("{:?}", o),
    }
}

#[test]
fn failure_resets_rule_set_issue_48_shape() {
    // Init{'[' => switch(A), 'a' = 1} A{'b' = 2}: "[[a" -> Err@1 (in A), then 'a' in Init, then None
    let sw = Action::Do(vec![(
        Guard::Always,
        Outcome {
            reset: true,
            switch: Some("A".into()),
            fin: Fin::Continue,
        },
    )]);
    let mut s = Spec {
        error_type: false,
        named: true,
        lets: vec![],
        sets: vec![
            RuleSet {
                pre_lets: vec![],
                name: "Init".into(),
                entries: vec![Entry::Rule(rule(Re::Chr('['), None, sw)), Entry::Rule(rule(Re::Chr('a'), None, Action::Simple(1)))],
            },
            RuleSet {
                pre_lets: vec![],
                name: "A".into(),
                entries: vec![Entry::Rule(rule(Re::Chr('b'), None, Action::Simple(2)))],
            },
        ],
    };
    s.renumber();
    assert_eq!(lex(&s, "[[a"), vec!["E@1", "T1@2..3", "None"]);
    assert_eq!(lex(&s, "[b"), vec!["T2@1..2", "E@2", "None"]);
}

#[test]
fn diff_and_class_algebra() {
    // ['0'-'9'] # ['3'-'7']
    let s = single(vec![rule(
        Re::diff(Re::range('0', '9'), Re::range('3', '7')),
        None,
        Action::Simple(1),
    )]);
    assert_eq!(lex(&s, "2")[0], "T1@0..1");
    assert_eq!(lex(&s, "3")[0], "E@0");
    assert_eq!(lex(&s, "8")[0], "T1@0..1");
    // ['0'-'5' '7'-'9'] # ['0'-'8'] accepts only '9'
    let s = single(vec![rule(
        Re::diff(
            Re::Set(vec![SetItem::R('0', '5'), SetItem::R('7', '9')]),
            Re::range('0', '8'),
        ),
        None,
        Action::Simple(1),
    )]);
    assert_eq!(lex(&s, "7")[0], "E@0");
    assert_eq!(lex(&s, "9")[0], "T1@0..1");
}

#[test]
fn sexpr_roundtrip() {
    let s = single(vec![
        rule(Re::cat(Re::opt(Re::str("ab")), Re::alt(Re::Any, Re::bi("ascii_digit"))), Some(Re::Eoi), ret(3)),
        rule(Re::diff(Re::Any, Re::Chr('x')), None, Action::Skip),
    ]);
    let t = s.to_text();
    let s2 = Spec::from_text(&t).unwrap();
    assert_eq!(s, s2);
}

#[test]
fn eoi_that_is_not_the_last_factor() {
    // 'a' = 2, 'a' $ 'b' = 1: at the end of the input the second rule is dead, the first one wins
    let s = single(vec![
        rule(Re::Chr('a'), None, Action::Simple(2)),
        rule(Re::cat(Re::Chr('a'), Re::cat(Re::Eoi, Re::Chr('b'))), None, Action::Simple(1)),
    ]);
    assert_eq!(lex(&s, "a"), vec!["T2@0..1", "None"]);
    assert_eq!(lex(&s, "aa"), vec!["T2@0..1", "T2@1..2", "None"]);
    // word ('\n' | $) ' '*  -- the `$` alternative is followed by a nullable factor
    let eol = Re::alt(Re::Chr('\n'), Re::Eoi);
    let s = single(vec![rule(
        Re::cat(Re::plus(Re::range('a', 'z')), Re::cat(eol.clone(), Re::star(Re::Chr(' ')))),
        None,
        Action::Simple(1),
    )]);
    assert_eq!(lex(&s, "ab"), vec!["T1@0..2", "None"]);
    assert_eq!(lex(&s, "ab\n  cd"), vec!["T1@0..5", "T1@5..7", "None"]);
    // a match through `$` is preferred to the same lexeme without it, also when something nullable follows
    let s = single(vec![
        rule(Re::plus(Re::range('a', 'z')), None, Action::Simple(2)),
        rule(
            Re::cat(Re::plus(Re::range('a', 'z')), Re::cat(Re::alt(Re::Eoi, Re::Chr(';')), Re::opt(Re::Chr('!')))),
            None,
            Action::Simple(1),
        ),
    ]);
    assert_eq!(lex(&s, "ab"), vec!["T1@0..2", "None"]);
    assert_eq!(lex(&s, "ab;"), vec!["T1@0..3", "None"]);
    assert_eq!(lex(&s, "ab?")[0], "T2@0..2");
}

#[test]
fn contexts_with_repeated_eoi() {
    // 'a' > ($) ($) = 1, 'a' = 2
    let s = single(vec![
        rule(Re::Chr('a'), Some(Re::cat(Re::Eoi, Re::Eoi)), Action::Simple(1)),
        rule(Re::Chr('a'), None, Action::Simple(2)),
    ]);
    assert_eq!(lex(&s, "a"), vec!["T1@0..1", "None"]);
    assert_eq!(&lex(&s, "ab")[..2], ["T2@0..1", "E@1"]);
    // 'a' > ('\n' | $)+ 'x' = 1: at the end of the input the context cannot match (and must not loop)
    let s = single(vec![
        rule(Re::Chr('a'), Some(Re::cat(Re::plus(Re::alt(Re::Chr('\n'), Re::Eoi)), Re::Chr('x'))), Action::Simple(1)),
        rule(Re::Chr('a'), None, Action::Simple(2)),
        rule(Re::Chr('\n'), None, Action::Simple(3)),
        rule(Re::Chr('x'), None, Action::Simple(4)),
    ]);
    assert_eq!(lex(&s, "a"), vec!["T2@0..1", "None"]);
    assert_eq!(lex(&s, "a\n\nx"), vec!["T1@0..1", "T3@1..2", "T3@2..3", "T4@3..4", "None"]);
    // eol ' '* eol: last line of a paragraph
    let eol = Re::alt(Re::Chr('\n'), Re::Eoi);
    let s = single(vec![
        rule(Re::plus(Re::Set(vec![SetItem::C(' '), SetItem::C('\n')])), None, Action::Skip),
        rule(
            Re::plus(Re::range('a', 'z')),
            Some(Re::cat(eol.clone(), Re::cat(Re::star(Re::Chr(' ')), eol.clone()))),
            Action::Simple(1),
        ),
        rule(Re::plus(Re::range('a', 'z')), None, Action::Simple(2)),
    ]);
    assert_eq!(lex(&s, "ab\ncd"), vec!["T2@0..2", "T1@3..5", "None"]);
    assert_eq!(lex(&s, "ab"), vec!["T1@0..2", "None"]);
}
