//! Printers: spec -> `lexer! { ... }` source text.

use crate::rng::Rng;
use crate::spec::{Action, Entry, Fin, Guard, Outcome, Re, Rule, SetItem, Spec};

#[derive(Clone, Copy, Debug, PartialEq, Eq)]
pub enum Paren {
    /// fewest parentheses the documented grammar allows
    Minimal,
    /// every composite sub-expression parenthesised
    Full,
    /// minimal plus random redundant parentheses (seeded)
    Redundant,
}

#[derive(Clone, Debug)]
pub struct PrintOpts {
    pub paren: Paren,
    /// replace `re,` and `re = t,` by their documented desugarings
    pub desugar: bool,
    pub seed: u64,
    pub name: String,
    pub derive_clone: bool,
    pub indent: usize,
}

impl PrintOpts {
    pub fn new(name: &str) -> PrintOpts {
        PrintOpts {
            paren: Paren::Minimal,
            desugar: false,
            seed: 0,
            name: name.to_string(),
            derive_clone: true,
            indent: 4,
        }
    }
}

pub fn char_lit(c: char) -> String {
    match c {
        '\'' => "'\\''".to_string(),
        '\\' => "'\\\\'".to_string(),
        c if (' '..='~').contains(&c) => format!("'{}'", c),
        c => format!("'\\u{{{:X}}}'", c as u32),
    }
}

pub fn str_lit(cs: &[char]) -> String {
    let mut s = String::from("\"");
    for c in cs {
        match *c {
            '"' => s.push_str("\\\""),
            '\\' => s.push_str("\\\\"),
            c if (' '..='~').contains(&c) => s.push(c),
            c => s.push_str(&format!("\\u{{{:X}}}", c as u32)),
        }
    }
    s.push('"');
    s
}

// precedence levels: 0 alternation, 1 concatenation, 2 postfix, 3 difference, 4 atom
fn level(re: &Re) -> u8 {
    match re {
        Re::Alt(_, _) => 0,
        Re::Cat(_, _) => 1,
        Re::Star(_) | Re::Plus(_) | Re::Opt(_) => 2,
        Re::Diff(_, _) => 3,
        _ => 4,
    }
}

pub struct RePrinter {
    pub paren: Paren,
    pub rng: Rng,
}

impl RePrinter {
    pub fn new(paren: Paren, seed: u64) -> RePrinter {
        RePrinter {
            paren,
            rng: Rng::new(seed),
        }
    }

    pub fn print(&mut self, re: &Re) -> String {
        self.p(re, 0)
    }

    /// Print `re` in a context that requires at least precedence `need`.
    fn p(&mut self, re: &Re, need: u8) -> String {
        let body = match re {
            Re::Chr(c) => char_lit(*c),
            Re::Str(cs) => str_lit(cs),
            Re::Set(items) => {
                let mut s = String::from("[");
                for (i, it) in items.iter().enumerate() {
                    if i > 0 {
                        s.push(' ');
                    }
                    match it {
                        SetItem::C(c) => s.push_str(&char_lit(*c)),
                        SetItem::R(a, b) => {
                            s.push_str(&char_lit(*a));
                            s.push('-');
                            s.push_str(&char_lit(*b));
                        }
                    }
                }
                s.push(']');
                s
            }
            Re::Any => "_".to_string(),
            Re::Eoi => "$".to_string(),
            Re::Var(x) => format!("${}", x),
            Re::Builtin(x) => format!("$${}", x),
            Re::Star(a) => format!("{}*", self.p(a, 2)),
            Re::Plus(a) => format!("{}+", self.p(a, 2)),
            Re::Opt(a) => format!("{}?", self.p(a, 2)),
            Re::Cat(a, b) => {
                let l = self.p(a, 1);
                let r = self.p(b, 2);
                // `$ $` is the token sequence of a built-in class name (`$$name`): keep two
                // end-of-input markers apart
                if l.ends_with('$') && r.starts_with('$') {
                    format!("{} ({})", l, r)
                } else {
                    format!("{} {}", l, r)
                }
            }
            Re::Alt(a, b) => format!("{} | {}", self.p(a, 0), self.p(b, 1)),
            Re::Diff(a, b) => format!("{} # {}", self.p(a, 3), self.p(b, 4)),
        };
        let lv = level(re);
        let must = lv < need;
        let wrap = match self.paren {
            Paren::Minimal => must,
            Paren::Full => must || lv < 4,
            Paren::Redundant => must || self.rng.chance(1, 4),
        };
        if wrap {
            if self.paren == Paren::Redundant && self.rng.chance(1, 6) {
                format!("(({}))", body)
            } else {
                format!("({})", body)
            }
        } else {
            body
        }
    }
}

fn guard_expr(g: &Guard) -> String {
    match g {
        Guard::Always => "true".to_string(),
        Guard::PeekIs(c) => format!("o.pk == Some({})", char_lit(*c)),
        Guard::PeekNone => "o.pk.is_none()".to_string(),
        Guard::LenParity(b) => format!("o.len % 2 == {}", b),
        Guard::CounterParity(b) => format!("o.cnt % 2 == {}", b),
    }
}

fn outcome_code(o: &Outcome, id: u32, fallible: bool, lexer_name: &str) -> String {
    let mut s = String::new();
    if o.reset {
        s.push_str("lexer.reset_match(); vdrive::post!(lexer); ");
    }
    let tok = |v: u32| {
        if fallible {
            format!("Ok(Tok({}, {}))", id, v)
        } else {
            format!("Tok({}, {})", id, v)
        }
    };
    let fin = match (&o.switch, &o.fin) {
        (None, Fin::Continue) => "lexer.continue_()".to_string(),
        (None, Fin::Return(v)) => format!("lexer.return_({})", tok(*v)),
        (None, Fin::Err(e)) => format!("lexer.return_(Err({}))", e),
        (Some(t), Fin::Continue) => format!("lexer.switch({}Rule::{})", lexer_name, t),
        (Some(t), Fin::Return(v)) => {
            format!("lexer.switch_and_return({}Rule::{}, {})", lexer_name, t, tok(*v))
        }
        (Some(t), Fin::Err(e)) => {
            format!("lexer.switch_and_return({}Rule::{}, Err({}))", lexer_name, t, e)
        }
    };
    s.push_str(&fin);
    s
}

fn action_code(r: &Rule, opts: &PrintOpts) -> String {
    match &r.act {
        Action::Skip => {
            if opts.desugar {
                " => |lexer| { lexer.reset_match(); lexer.continue_() },".to_string()
            } else {
                ",".to_string()
            }
        }
        Action::Simple(v) => {
            if opts.desugar {
                format!(" => |lexer| lexer.return_(Tok({}, {})),", r.id, v)
            } else {
                format!(" = Tok({}, {}),", r.id, v)
            }
        }
        Action::Do(bs) | Action::Try(bs) => {
            let fallible = matches!(r.act, Action::Try(_));
            let arrow = if fallible { "=?" } else { "=>" };
            let mut s = format!(" {} |lexer| {{ let o = vdrive::ev!(lexer, {}); ", arrow, r.id);
            if bs.len() == 1 {
                s.push_str("let _ = &o; ");
                s.push_str(&outcome_code(&bs[0].1, r.id, fallible, &opts.name));
            } else {
                for (i, (g, o)) in bs.iter().enumerate() {
                    if i + 1 == bs.len() {
                        s.push_str(&format!("{{ {} }}", outcome_code(o, r.id, fallible, &opts.name)));
                    } else {
                        s.push_str(&format!(
                            "if {} {{ {} }} else ",
                            guard_expr(g),
                            outcome_code(o, r.id, fallible, &opts.name)
                        ));
                    }
                }
            }
            s.push_str(" },");
            s
        }
    }
}

pub fn print_rule(r: &Rule, opts: &PrintOpts, rp: &mut RePrinter) -> String {
    let mut s = rp.print(&r.re);
    if let Some(c) = &r.ctx {
        s.push_str(" > ");
        s.push_str(&rp.print(c));
    }
    s.push_str(&action_code(r, opts));
    s
}

/// Print the whole `lexer! { ... }` invocation. Every entry is on its own line.
pub fn print_lexer(spec: &Spec, opts: &PrintOpts) -> String {
    let mut rp = RePrinter::new(opts.paren, opts.seed);
    let ind = " ".repeat(opts.indent);
    let mut s = String::new();
    s.push_str(&format!("{}lexer! {{\n", ind));
    if opts.derive_clone {
        s.push_str(&format!("{}    #[derive(Clone)]\n", ind));
    }
    s.push_str(&format!("{}    pub {}(St) -> Tok;\n", ind, opts.name));
    if spec.error_type {
        s.push_str(&format!("{}    type Error = u32;\n", ind));
    }
    for (n, r) in &spec.lets {
        s.push_str(&format!("{}    let {} = {};\n", ind, n, rp.print(r)));
    }
    for set in &spec.sets {
        let (open, close, ind2) = if spec.named {
            (
                format!("{}    rule {} {{\n", ind, set.name),
                format!("{}    }}\n", ind),
                format!("{}        ", ind),
            )
        } else {
            (String::new(), String::new(), format!("{}    ", ind))
        };
        for (n, r) in &set.pre_lets {
            s.push_str(&format!("{}    let {} = {};\n", ind, n, rp.print(r)));
        }
        s.push_str(&open);
        for e in &set.entries {
            match e {
                Entry::Let(n, r) => s.push_str(&format!("{}let {} = {};\n", ind2, n, rp.print(r))),
                Entry::Rule(r) => {
                    s.push_str(&ind2);
                    s.push_str(&print_rule(r, opts, &mut rp));
                    s.push('\n');
                }
            }
        }
        s.push_str(&close);
    }
    s.push_str(&format!("{}}}\n", ind));
    s
}

/// Human-readable one-line rendering of a rule list (for evidence samples).
pub fn summarize(spec: &Spec) -> String {
    let mut rp = RePrinter::new(Paren::Minimal, 0);
    let mut parts = vec![];
    for set in &spec.sets {
        for (n, r) in &set.pre_lets {
            parts.push(format!("let {}={}", n, rp.print(r)));
        }
        let mut rs = vec![];
        for e in &set.entries {
            match e {
                Entry::Let(n, r) => rs.push(format!("let {}={}", n, rp.print(r))),
                Entry::Rule(r) => {
                    let mut t = rp.print(&r.re);
                    if let Some(c) = &r.ctx {
                        t.push_str(" > ");
                        t.push_str(&rp.print(c));
                    }
                    rs.push(t);
                }
            }
        }
        parts.push(format!("{}{{{}}}", set.name, rs.join(" ; ")));
    }
    let lets: Vec<String> = spec
        .lets
        .iter()
        .map(|(n, r)| format!("let {}={}", n, rp.print(r)))
        .collect();
    format!("{} {}", lets.join(" ; "), parts.join(" "))
}
