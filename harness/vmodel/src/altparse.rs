//! A model-side parser for printed regex text, parameterised by grammar variant. Used by C16 to
//! measure discriminating power: a printing only tests the documented grammar if some *wrong*
//! grammar would read it as a different language.

use crate::spec::{Re, SetItem};

#[derive(Clone, Copy, Debug, PartialEq, Eq)]
pub enum Grammar {
    /// documented: `#` on atoms, then postfix, then concatenation, then `|`, all left-associative
    Documented,
    /// postfix binds tighter than `#` (the README's prose order)
    PostfixBeforeDiff,
    /// `|` binds tighter than concatenation
    AltBeforeCat,
    /// `#` right-associative
    DiffRightAssoc,
    /// a postfix operator applies to the whole concatenation before it
    PostfixOnConcat,
}

pub const WRONG: [Grammar; 4] = [
    Grammar::PostfixBeforeDiff,
    Grammar::AltBeforeCat,
    Grammar::DiffRightAssoc,
    Grammar::PostfixOnConcat,
];

#[derive(Clone, Debug, PartialEq)]
enum Tok {
    Chr(char),
    Str(Vec<char>),
    LBr,
    RBr,
    Minus,
    LPar,
    RPar,
    Under,
    Dollar,
    Var(String),
    Builtin(String),
    Star,
    Plus,
    Quest,
    Bar,
    Hash,
}

fn unescape(it: &mut std::iter::Peekable<std::str::Chars>) -> Option<char> {
    match it.next()? {
        '\\' => match it.next()? {
            'n' => Some('\n'),
            't' => Some('\t'),
            'r' => Some('\r'),
            '\\' => Some('\\'),
            '\'' => Some('\''),
            '"' => Some('"'),
            'u' => {
                if it.next()? != '{' {
                    return None;
                }
                let mut v = 0u32;
                loop {
                    let c = it.next()?;
                    if c == '}' {
                        break;
                    }
                    v = v * 16 + c.to_digit(16)?;
                }
                char::from_u32(v)
            }
            _ => None,
        },
        c => Some(c),
    }
}

fn lex(s: &str) -> Option<Vec<Tok>> {
    let mut out = vec![];
    let mut it = s.chars().peekable();
    while let Some(c) = it.peek().copied() {
        match c {
            ' ' | '\n' | '\t' => {
                it.next();
            }
            '\'' => {
                it.next();
                let ch = unescape(&mut it)?;
                if it.next()? != '\'' {
                    return None;
                }
                out.push(Tok::Chr(ch));
            }
            '"' => {
                it.next();
                let mut cs = vec![];
                loop {
                    if *it.peek()? == '"' {
                        it.next();
                        break;
                    }
                    cs.push(unescape(&mut it)?);
                }
                out.push(Tok::Str(cs));
            }
            '[' => {
                it.next();
                out.push(Tok::LBr)
            }
            ']' => {
                it.next();
                out.push(Tok::RBr)
            }
            '-' => {
                it.next();
                out.push(Tok::Minus)
            }
            '(' => {
                it.next();
                out.push(Tok::LPar)
            }
            ')' => {
                it.next();
                out.push(Tok::RPar)
            }
            '*' => {
                it.next();
                out.push(Tok::Star)
            }
            '+' => {
                it.next();
                out.push(Tok::Plus)
            }
            '?' => {
                it.next();
                out.push(Tok::Quest)
            }
            '|' => {
                it.next();
                out.push(Tok::Bar)
            }
            '#' => {
                it.next();
                out.push(Tok::Hash)
            }
            '$' => {
                it.next();
                let builtin = if it.peek() == Some(&'$') {
                    it.next();
                    true
                } else {
                    false
                };
                let mut id = String::new();
                while let Some(c) = it.peek().copied() {
                    if c.is_alphanumeric() || c == '_' {
                        id.push(c);
                        it.next();
                    } else {
                        break;
                    }
                }
                if builtin {
                    out.push(Tok::Builtin(id));
                } else if id.is_empty() {
                    out.push(Tok::Dollar);
                } else {
                    out.push(Tok::Var(id));
                }
            }
            '_' => {
                it.next();
                out.push(Tok::Under)
            }
            _ => return None,
        }
    }
    Some(out)
}

struct P<'a> {
    t: &'a [Tok],
    i: usize,
    g: Grammar,
}

impl<'a> P<'a> {
    fn peek(&self) -> Option<&Tok> {
        self.t.get(self.i)
    }
    fn bump(&mut self) -> Option<Tok> {
        let t = self.t.get(self.i).cloned();
        self.i += 1;
        t
    }
    fn starts_atom(&self) -> bool {
        matches!(
            self.peek(),
            Some(Tok::Chr(_)) | Some(Tok::Str(_)) | Some(Tok::LBr) | Some(Tok::LPar) | Some(Tok::Under) | Some(Tok::Dollar) | Some(Tok::Var(_)) | Some(Tok::Builtin(_))
        )
    }

    fn alt(&mut self) -> Option<Re> {
        if self.g == Grammar::AltBeforeCat {
            // cat := altitem altitem* ; altitem := postfix ('|' postfix)*
            let mut re = self.alt_item()?;
            while self.starts_atom() {
                let r2 = self.alt_item()?;
                re = Re::cat(re, r2);
            }
            return Some(re);
        }
        let mut re = self.cat()?;
        while self.peek() == Some(&Tok::Bar) {
            self.bump();
            let r2 = self.cat()?;
            re = Re::alt(re, r2);
        }
        Some(re)
    }

    fn alt_item(&mut self) -> Option<Re> {
        let mut re = self.postfix()?;
        while self.peek() == Some(&Tok::Bar) {
            self.bump();
            let r2 = self.postfix()?;
            re = Re::alt(re, r2);
        }
        Some(re)
    }

    fn cat(&mut self) -> Option<Re> {
        let mut re = self.postfix()?;
        while self.starts_atom() {
            let r2 = if self.g == Grammar::PostfixOnConcat {
                // the factor itself is read without postfix operators ...
                self.diff()?
            } else {
                self.postfix()?
            };
            re = Re::cat(re, r2);
            if self.g == Grammar::PostfixOnConcat {
                // ... which then apply to the whole concatenation read so far
                loop {
                    match self.peek() {
                        Some(Tok::Star) => {
                            self.bump();
                            re = Re::star(re);
                        }
                        Some(Tok::Plus) => {
                            self.bump();
                            re = Re::plus(re);
                        }
                        Some(Tok::Quest) => {
                            self.bump();
                            re = Re::opt(re);
                        }
                        _ => break,
                    }
                }
            }
        }
        Some(re)
    }

    fn postfix(&mut self) -> Option<Re> {
        let mut re = match self.g {
            Grammar::PostfixBeforeDiff => return self.diff_of_postfix(),
            _ => self.diff()?,
        };
        if self.g == Grammar::PostfixOnConcat {
            // postfix operators directly after the FIRST factor still apply to it
        }
        loop {
            match self.peek() {
                Some(Tok::Star) => {
                    self.bump();
                    re = Re::star(re);
                }
                Some(Tok::Plus) => {
                    self.bump();
                    re = Re::plus(re);
                }
                Some(Tok::Quest) => {
                    self.bump();
                    re = Re::opt(re);
                }
                _ => break,
            }
        }
        Some(re)
    }

    /// PostfixBeforeDiff: diff := post ('#' post)* ; post := atom postfix*
    fn diff_of_postfix(&mut self) -> Option<Re> {
        let mut re = self.atom_postfix()?;
        while self.peek() == Some(&Tok::Hash) {
            self.bump();
            let r2 = self.atom_postfix()?;
            re = Re::diff(re, r2);
        }
        Some(re)
    }

    fn atom_postfix(&mut self) -> Option<Re> {
        let mut re = self.atom()?;
        loop {
            match self.peek() {
                Some(Tok::Star) => {
                    self.bump();
                    re = Re::star(re);
                }
                Some(Tok::Plus) => {
                    self.bump();
                    re = Re::plus(re);
                }
                Some(Tok::Quest) => {
                    self.bump();
                    re = Re::opt(re);
                }
                _ => break,
            }
        }
        Some(re)
    }

    fn diff(&mut self) -> Option<Re> {
        let first = self.atom()?;
        if self.g == Grammar::DiffRightAssoc {
            if self.peek() == Some(&Tok::Hash) {
                self.bump();
                let rest = self.diff()?;
                return Some(Re::diff(first, rest));
            }
            return Some(first);
        }
        let mut re = first;
        while self.peek() == Some(&Tok::Hash) {
            self.bump();
            let r2 = self.atom()?;
            re = Re::diff(re, r2);
        }
        Some(re)
    }

    fn atom(&mut self) -> Option<Re> {
        match self.bump()? {
            Tok::Chr(c) => Some(Re::Chr(c)),
            Tok::Str(cs) => Some(Re::Str(cs)),
            Tok::Under => Some(Re::Any),
            Tok::Dollar => Some(Re::Eoi),
            Tok::Var(x) => Some(Re::Var(x)),
            Tok::Builtin(x) => Some(Re::Builtin(x)),
            Tok::LPar => {
                let r = self.alt()?;
                if self.bump()? != Tok::RPar {
                    return None;
                }
                Some(r)
            }
            Tok::LBr => {
                let mut items = vec![];
                loop {
                    match self.bump()? {
                        Tok::RBr => break,
                        Tok::Chr(a) => {
                            if self.peek() == Some(&Tok::Minus) {
                                self.bump();
                                match self.bump()? {
                                    Tok::Chr(b) => items.push(SetItem::R(a, b)),
                                    _ => return None,
                                }
                            } else {
                                items.push(SetItem::C(a));
                            }
                        }
                        _ => return None,
                    }
                }
                Some(Re::Set(items))
            }
            _ => None,
        }
    }
}

/// Parse printed regex text under grammar `g`. None = not parseable under that grammar.
pub fn parse(text: &str, g: Grammar) -> Option<Re> {
    let toks = lex(text)?;
    let mut p = P { t: &toks, i: 0, g };
    let r = p.alt()?;
    if p.i != toks.len() {
        return None;
    }
    Some(r)
}
