//! Reference semantics of character classes: pointwise membership (the definition) and an
//! interval-set evaluation by elementary segments (collect all end points, decide each segment by
//! evaluating the class expression as a boolean formula at one representative code point).

use crate::spec::{Re, SetItem};
use std::collections::BTreeMap;
use unicode_xid::UnicodeXID;

pub type Env = BTreeMap<String, Re>;

pub const BUILTIN_NAMES: [&str; 20] = [
    "alphabetic",
    "alphanumeric",
    "ascii",
    "ascii_alphabetic",
    "ascii_alphanumeric",
    "ascii_control",
    "ascii_digit",
    "ascii_graphic",
    "ascii_hexdigit",
    "ascii_lowercase",
    "ascii_punctuation",
    "ascii_uppercase",
    "ascii_whitespace",
    "control",
    "lowercase",
    "numeric",
    "uppercase",
    "whitespace",
    "XID_Start",
    "XID_Continue",
];

/// The Rust predicate a built-in name stands for (README "Built-in regular expressions").
pub fn builtin_pred(name: &str) -> Option<fn(char) -> bool> {
    fn xs(c: char) -> bool {
        UnicodeXID::is_xid_start(c)
    }
    fn xc(c: char) -> bool {
        UnicodeXID::is_xid_continue(c)
    }
    Some(match name {
        "alphabetic" => |c: char| c.is_alphabetic(),
        "alphanumeric" => |c: char| c.is_alphanumeric(),
        "ascii" => |c: char| c.is_ascii(),
        "ascii_alphabetic" => |c: char| c.is_ascii_alphabetic(),
        "ascii_alphanumeric" => |c: char| c.is_ascii_alphanumeric(),
        "ascii_control" => |c: char| c.is_ascii_control(),
        "ascii_digit" => |c: char| c.is_ascii_digit(),
        "ascii_graphic" => |c: char| c.is_ascii_graphic(),
        "ascii_hexdigit" => |c: char| c.is_ascii_hexdigit(),
        "ascii_lowercase" => |c: char| c.is_ascii_lowercase(),
        "ascii_punctuation" => |c: char| c.is_ascii_punctuation(),
        "ascii_uppercase" => |c: char| c.is_ascii_uppercase(),
        "ascii_whitespace" => |c: char| c.is_ascii_whitespace(),
        "control" => |c: char| c.is_control(),
        "lowercase" => |c: char| c.is_lowercase(),
        "numeric" => |c: char| c.is_numeric(),
        "uppercase" => |c: char| c.is_uppercase(),
        "whitespace" => |c: char| c.is_whitespace(),
        "XID_Start" => xs,
        "XID_Continue" => xc,
        _ => return None,
    })
}

/// Is `re` a class expression (something `#` accepts as operand)?
pub fn is_class_expr(re: &Re, env: &Env) -> bool {
    match re {
        Re::Chr(_) | Re::Set(_) | Re::Any | Re::Builtin(_) => true,
        Re::Var(x) => match env.get(x) {
            Some(r) => is_class_expr(r, env),
            None => false,
        },
        Re::Alt(a, b) | Re::Diff(a, b) => is_class_expr(a, env) && is_class_expr(b, env),
        _ => false,
    }
}

/// Pointwise membership: the definition of the class algebra.
pub fn class_contains(re: &Re, env: &Env, c: char) -> bool {
    match re {
        Re::Chr(x) => *x == c,
        Re::Set(items) => items.iter().any(|it| match it {
            SetItem::C(x) => *x == c,
            SetItem::R(a, b) => *a <= c && c <= *b,
        }),
        Re::Any => true,
        Re::Builtin(n) => builtin_pred(n).map(|p| p(c)).unwrap_or(false),
        Re::Var(x) => match env.get(x) {
            Some(r) => class_contains(r, env, c),
            None => false,
        },
        Re::Alt(a, b) => class_contains(a, env, c) || class_contains(b, env, c),
        Re::Diff(a, b) => class_contains(a, env, c) && !class_contains(b, env, c),
        _ => panic!("class_contains on non-class expression {:?}", re),
    }
}

/// Cached maximal ranges of every built-in predicate (computed once by scanning all scalars).
pub fn builtin_ranges(name: &str) -> &'static Vec<(u32, u32)> {
    use std::sync::OnceLock;
    static CACHE: OnceLock<BTreeMap<&'static str, Vec<(u32, u32)>>> = OnceLock::new();
    let m = CACHE.get_or_init(|| {
        let mut m = BTreeMap::new();
        for n in BUILTIN_NAMES.iter() {
            let p = builtin_pred(n).unwrap();
            let mut v: Vec<(u32, u32)> = vec![];
            let mut start: Option<u32> = None;
            let mut last: u32 = 0;
            for i in 0..=0x10FFFFu32 {
                match char::from_u32(i) {
                    None => continue,
                    Some(c) => {
                        if p(c) {
                            if start.is_none() {
                                start = Some(i);
                            } else if i != last + 1 {
                                // crossed the surrogate gap while inside a range: keep going; the
                                // range is maximal over scalar values
                            }
                            last = i;
                        } else if let Some(s) = start.take() {
                            v.push((s, last));
                        }
                    }
                }
            }
            if let Some(s) = start {
                v.push((s, last));
            }
            m.insert(*n, v);
        }
        m
    });
    m.get(name).expect("unknown builtin")
}

/// Collect segment boundaries (code points where membership of some class mentioned in `re` may
/// change).
pub fn collect_boundaries(re: &Re, env: &Env, out: &mut Vec<u32>, depth: usize) {
    if depth > 64 {
        return;
    }
    match re {
        Re::Chr(c) => {
            out.push(*c as u32);
            out.push(*c as u32 + 1);
        }
        Re::Str(cs) => {
            for c in cs {
                out.push(*c as u32);
                out.push(*c as u32 + 1);
            }
        }
        Re::Set(items) => {
            for it in items {
                match it {
                    SetItem::C(c) => {
                        out.push(*c as u32);
                        out.push(*c as u32 + 1);
                    }
                    SetItem::R(a, b) => {
                        out.push(*a as u32);
                        out.push(*b as u32 + 1);
                    }
                }
            }
        }
        Re::Any | Re::Eoi => {}
        Re::Builtin(n) => {
            if builtin_pred(n).is_some() {
                for (a, b) in builtin_ranges(n) {
                    out.push(*a);
                    out.push(*b + 1);
                }
            }
        }
        Re::Var(x) => {
            if let Some(r) = env.get(x) {
                collect_boundaries(r, env, out, depth + 1);
            }
        }
        Re::Star(a) | Re::Plus(a) | Re::Opt(a) => collect_boundaries(a, env, out, depth + 1),
        Re::Cat(a, b) | Re::Alt(a, b) | Re::Diff(a, b) => {
            collect_boundaries(a, env, out, depth + 1);
            collect_boundaries(b, env, out, depth + 1);
        }
    }
}

/// A partition of 0..=0x10FFFF into segments `[bounds[i], bounds[i+1])`.
#[derive(Clone, Debug)]
pub struct Segments {
    pub bounds: Vec<u32>,
}

impl Segments {
    pub fn new(mut pts: Vec<u32>) -> Segments {
        pts.push(0);
        pts.push(0xD800);
        pts.push(0xE000);
        pts.push(0x110000);
        pts.retain(|p| *p <= 0x110000);
        pts.sort();
        pts.dedup();
        Segments { bounds: pts }
    }
    pub fn len(&self) -> usize {
        self.bounds.len() - 1
    }
    pub fn seg_of(&self, c: char) -> usize {
        let v = c as u32;
        match self.bounds.binary_search(&v) {
            Ok(i) => i,
            Err(i) => i - 1,
        }
    }
    pub fn rep(&self, seg: usize) -> Option<char> {
        char::from_u32(self.bounds[seg])
    }
    pub fn range(&self, seg: usize) -> (u32, u32) {
        (self.bounds[seg], self.bounds[seg + 1] - 1)
    }
    /// Evaluate a class expression to the sorted list of segments it contains.
    pub fn eval(&self, re: &Re, env: &Env) -> Vec<u32> {
        let mut v = vec![];
        for s in 0..self.len() {
            if let Some(c) = self.rep(s) {
                if class_contains(re, env, c) {
                    v.push(s as u32);
                }
            }
        }
        v
    }
    /// Maximal scalar ranges of a class expression (ranges are over scalar values; a range never
    /// contains surrogates because the surrogate segment is never a member).
    pub fn ranges(&self, re: &Re, env: &Env) -> Vec<(u32, u32)> {
        let mut out: Vec<(u32, u32)> = vec![];
        for s in self.eval(re, env) {
            let (a, b) = self.range(s as usize);
            match out.last_mut() {
                Some(last) if last.1 + 1 == a => last.1 = b,
                _ => out.push((a, b)),
            }
        }
        out
    }
}

/// Size (number of scalar values) of a class expression; 0 means the class is empty.
pub fn class_size(re: &Re, env: &Env) -> u64 {
    let mut pts = vec![];
    collect_boundaries(re, env, &mut pts, 0);
    let segs = Segments::new(pts);
    segs.ranges(re, env)
        .iter()
        .map(|(a, b)| (*b - *a + 1) as u64)
        .sum()
}
