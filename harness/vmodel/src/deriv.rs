//! Matcher A: Brzozowski derivatives over hash-consed terms, on the elementary-segment alphabet
//! plus an end-of-input symbol. Lazily builds a deterministic automaton per rule set whose states
//! are vectors of per-rule derivative terms.

use crate::class::{collect_boundaries, is_class_expr, Env, Segments};
use crate::spec::Re;
use std::collections::HashMap;

pub type Id = u32;

#[derive(Clone, Debug, PartialEq, Eq, Hash)]
enum T {
    Empty,
    Eps,
    Cls(u32),
    Eoi,
    Cat(Id, Id),
    Alt(Vec<Id>),
    Star(Id),
}

pub const EMPTY: Id = 0;
pub const EPS: Id = 1;

#[derive(Clone, Copy, Debug, PartialEq, Eq, Hash)]
pub enum Sym {
    Seg(u32),
    Eoi,
}

pub struct Arena {
    pub segs: Segments,
    terms: Vec<T>,
    index: HashMap<T, Id>,
    classes: Vec<Vec<u32>>, // sorted segment ids
    class_index: HashMap<Vec<u32>, u32>,
    nullable_memo: HashMap<Id, bool>,
    deriv_memo: HashMap<(Id, Sym), Id>,
    cfirst_memo: HashMap<Id, bool>,
    efirst_memo: HashMap<Id, bool>,
}

impl Arena {
    pub fn new(segs: Segments) -> Arena {
        let mut a = Arena {
            segs,
            terms: vec![],
            index: HashMap::new(),
            classes: vec![],
            class_index: HashMap::new(),
            nullable_memo: HashMap::new(),
            deriv_memo: HashMap::new(),
            cfirst_memo: HashMap::new(),
            efirst_memo: HashMap::new(),
        };
        assert_eq!(a.intern(T::Empty), EMPTY);
        assert_eq!(a.intern(T::Eps), EPS);
        a
    }

    fn intern(&mut self, t: T) -> Id {
        if let Some(id) = self.index.get(&t) {
            return *id;
        }
        let id = self.terms.len() as Id;
        self.terms.push(t.clone());
        self.index.insert(t, id);
        id
    }

    fn cls(&mut self, segs: Vec<u32>) -> Id {
        if segs.is_empty() {
            return EMPTY;
        }
        let cid = match self.class_index.get(&segs) {
            Some(c) => *c,
            None => {
                let c = self.classes.len() as u32;
                self.classes.push(segs.clone());
                self.class_index.insert(segs, c);
                c
            }
        };
        self.intern(T::Cls(cid))
    }

    fn cat(&mut self, a: Id, b: Id) -> Id {
        if a == EMPTY || b == EMPTY {
            return EMPTY;
        }
        if a == EPS {
            return b;
        }
        if b == EPS {
            return a;
        }
        if let T::Cat(x, y) = self.terms[a as usize].clone() {
            let yb = self.cat(y, b);
            return self.cat(x, yb);
        }
        self.intern(T::Cat(a, b))
    }

    fn alt(&mut self, xs: Vec<Id>) -> Id {
        let mut flat: Vec<Id> = vec![];
        for x in xs {
            match self.terms[x as usize].clone() {
                T::Empty => {}
                T::Alt(ys) => flat.extend(ys),
                _ => flat.push(x),
            }
        }
        flat.sort();
        flat.dedup();
        match flat.len() {
            0 => EMPTY,
            1 => flat[0],
            _ => self.intern(T::Alt(flat)),
        }
    }

    fn star(&mut self, a: Id) -> Id {
        if a == EMPTY || a == EPS {
            return EPS;
        }
        if let T::Star(_) = self.terms[a as usize] {
            return a;
        }
        self.intern(T::Star(a))
    }

    /// Translate a syntax tree into a term.
    pub fn from_re(&mut self, re: &Re, env: &Env) -> Id {
        match re {
            Re::Chr(c) => {
                let s = self.segs.seg_of(*c) as u32;
                self.cls(vec![s])
            }
            Re::Str(cs) => {
                if cs.is_empty() {
                    return EMPTY; // lexgen builds a dead path for ""
                }
                let mut t = EPS;
                for c in cs.iter().rev() {
                    let s = self.segs.seg_of(*c) as u32;
                    let k = self.cls(vec![s]);
                    t = self.cat(k, t);
                }
                t
            }
            Re::Set(_) | Re::Any | Re::Builtin(_) | Re::Diff(_, _) => {
                let v = self.segs.eval(re, env);
                self.cls(v)
            }
            Re::Eoi => self.intern(T::Eoi),
            Re::Var(x) => match env.get(x) {
                Some(r) => {
                    let r = r.clone();
                    self.from_re(&r, env)
                }
                None => EMPTY,
            },
            Re::Star(a) => {
                let x = self.from_re(a, env);
                self.star(x)
            }
            Re::Plus(a) => {
                let x = self.from_re(a, env);
                let s = self.star(x);
                self.cat(x, s)
            }
            Re::Opt(a) => {
                let x = self.from_re(a, env);
                self.alt(vec![x, EPS])
            }
            Re::Cat(a, b) => {
                let x = self.from_re(a, env);
                let y = self.from_re(b, env);
                self.cat(x, y)
            }
            Re::Alt(a, b) => {
                if is_class_expr(re, env) {
                    let v = self.segs.eval(re, env);
                    self.cls(v)
                } else {
                    let x = self.from_re(a, env);
                    let y = self.from_re(b, env);
                    self.alt(vec![x, y])
                }
            }
        }
    }

    pub fn nullable(&mut self, t: Id) -> bool {
        if let Some(b) = self.nullable_memo.get(&t) {
            return *b;
        }
        let r = match self.terms[t as usize].clone() {
            T::Empty | T::Cls(_) | T::Eoi => false,
            T::Eps | T::Star(_) => true,
            T::Cat(a, b) => self.nullable(a) && self.nullable(b),
            T::Alt(xs) => xs.iter().any(|x| self.nullable(*x)),
        };
        self.nullable_memo.insert(t, r);
        r
    }

    pub fn deriv(&mut self, t: Id, s: Sym) -> Id {
        if let Some(r) = self.deriv_memo.get(&(t, s)) {
            return *r;
        }
        let r = match self.terms[t as usize].clone() {
            T::Empty | T::Eps => EMPTY,
            T::Cls(c) => match s {
                Sym::Seg(k) => {
                    if self.classes[c as usize].binary_search(&k).is_ok() {
                        EPS
                    } else {
                        EMPTY
                    }
                }
                Sym::Eoi => EMPTY,
            },
            T::Eoi => match s {
                Sym::Eoi => EPS,
                _ => EMPTY,
            },
            T::Cat(a, b) => {
                let da = self.deriv(a, s);
                let left = self.cat(da, b);
                if self.nullable(a) {
                    let db = self.deriv(b, s);
                    self.alt(vec![left, db])
                } else {
                    left
                }
            }
            T::Alt(xs) => {
                let ds: Vec<Id> = xs.iter().map(|x| self.deriv(*x, s)).collect();
                self.alt(ds)
            }
            T::Star(a) => {
                let da = self.deriv(a, s);
                self.cat(da, t)
            }
        };
        self.deriv_memo.insert((t, s), r);
        r
    }

    /// Can the term consume at least one character?
    pub fn char_first(&mut self, t: Id) -> bool {
        if let Some(b) = self.cfirst_memo.get(&t) {
            return *b;
        }
        let r = match self.terms[t as usize].clone() {
            T::Empty | T::Eps | T::Eoi => false,
            T::Cls(_) => true,
            T::Cat(a, b) => self.char_first(a) || (self.nullable(a) && self.char_first(b)),
            T::Alt(xs) => xs.iter().any(|x| self.char_first(*x)),
            T::Star(a) => self.char_first(a),
        };
        self.cfirst_memo.insert(t, r);
        r
    }

    /// Can the term consume the end-of-input marker next?
    pub fn eoi_first(&mut self, t: Id) -> bool {
        if let Some(b) = self.efirst_memo.get(&t) {
            return *b;
        }
        let r = match self.terms[t as usize].clone() {
            T::Empty | T::Eps | T::Cls(_) => false,
            T::Eoi => true,
            T::Cat(a, b) => self.eoi_first(a) || (self.nullable(a) && self.eoi_first(b)),
            T::Alt(xs) => xs.iter().any(|x| self.eoi_first(*x)),
            T::Star(a) => self.eoi_first(a),
        };
        self.efirst_memo.insert(t, r);
        r
    }

    /// Segment ids on which the term has a non-empty derivative (sorted, deduplicated).
    pub fn first_segs(&mut self, t: Id) -> Vec<u32> {
        let mut out = vec![];
        self.first_segs_into(t, &mut out);
        out.sort();
        out.dedup();
        out
    }

    fn first_segs_into(&mut self, t: Id, out: &mut Vec<u32>) {
        match self.terms[t as usize].clone() {
            T::Empty | T::Eps | T::Eoi => {}
            T::Cls(c) => out.extend(self.classes[c as usize].iter().copied()),
            T::Cat(a, b) => {
                self.first_segs_into(a, out);
                if self.nullable(a) {
                    self.first_segs_into(b, out);
                }
            }
            T::Alt(xs) => {
                for x in xs {
                    self.first_segs_into(x, out);
                }
            }
            T::Star(a) => self.first_segs_into(a, out),
        }
    }

    pub fn n_terms(&self) -> usize {
        self.terms.len()
    }
}

/// Build the segment partition for a whole spec (all regexes and contexts and lets).
pub fn segments_for(res: &[(&Re, &Env)]) -> Segments {
    let mut pts = vec![];
    for (r, e) in res {
        collect_boundaries(r, e, &mut pts, 0);
    }
    Segments::new(pts)
}

/// Deterministic automaton of one rule set: state = vector of per-rule terms.
pub struct SetAuto {
    pub n_rules: usize,
    states: Vec<Vec<Id>>,
    index: HashMap<Vec<Id>, u32>,
    trans: HashMap<(u32, Sym), u32>,
}

pub const DEAD: u32 = u32::MAX;

impl SetAuto {
    pub fn new(rule_terms: Vec<Id>) -> SetAuto {
        let mut a = SetAuto {
            n_rules: rule_terms.len(),
            states: vec![],
            index: HashMap::new(),
            trans: HashMap::new(),
        };
        a.state_of(rule_terms);
        a
    }
    fn state_of(&mut self, v: Vec<Id>) -> u32 {
        if let Some(s) = self.index.get(&v) {
            return *s;
        }
        let s = self.states.len() as u32;
        self.states.push(v.clone());
        self.index.insert(v, s);
        s
    }
    pub fn init(&self) -> u32 {
        0
    }
    pub fn n_states(&self) -> usize {
        self.states.len()
    }
    pub fn step(&mut self, ar: &mut Arena, s: u32, sym: Sym) -> u32 {
        if let Some(t) = self.trans.get(&(s, sym)) {
            return *t;
        }
        let cur = self.states[s as usize].clone();
        let next: Vec<Id> = cur.iter().map(|t| ar.deriv(*t, sym)).collect();
        let r = if next.iter().all(|t| *t == EMPTY) {
            DEAD
        } else {
            self.state_of(next)
        };
        self.trans.insert((s, sym), r);
        r
    }
    /// Rules (indices within the set) accepting in state `s`, in rule order.
    pub fn accepts(&self, ar: &mut Arena, s: u32) -> Vec<usize> {
        let cur = self.states[s as usize].clone();
        (0..cur.len()).filter(|i| ar.nullable(cur[*i])).collect()
    }
    pub fn has_char_edge(&self, ar: &mut Arena, s: u32) -> bool {
        let cur = self.states[s as usize].clone();
        cur.iter().any(|t| ar.char_first(*t))
    }
    pub fn has_eoi_edge(&self, ar: &mut Arena, s: u32) -> bool {
        let cur = self.states[s as usize].clone();
        cur.iter().any(|t| ar.eoi_first(*t))
    }
    pub fn first_segs(&self, ar: &mut Arena, s: u32) -> Vec<u32> {
        let cur = self.states[s as usize].clone();
        let mut out = vec![];
        for t in cur {
            out.extend(ar.first_segs(t));
        }
        out.sort();
        out.dedup();
        out
    }
}
