//! The reference lexer: a direct transcription of the *properties* (maximal munch, first-rule
//! priority, right contexts, end-of-input protocol, failure recovery, action protocol, locations
//! by rescanning) on top of matcher A (derivative automaton). Matcher B is used for cross-checks.

use crate::class::Env;
use crate::deriv::{segments_for, Arena, SetAuto, Sym, DEAD};
use crate::matcher;
use crate::spec::{Action, Entry, Fin, Guard, Outcome, Re, Spec};
use unicode_width::UnicodeWidthChar;

#[derive(Clone, Copy, Debug, PartialEq, Eq, Hash, Default)]
pub struct Loc {
    pub line: u32,
    pub col: u32,
    pub byte: usize,
}

#[derive(Clone, Debug, PartialEq, Eq, Hash)]
pub enum Item {
    Tok {
        start: Loc,
        rule: u32,
        val: u32,
        end: Loc,
    },
    ErrInvalid {
        loc: Loc,
    },
    ErrCustom {
        loc: Loc,
        payload: u32,
    },
}

impl Item {
    pub fn is_err(&self) -> bool {
        !matches!(self, Item::Tok { .. })
    }
    pub fn kind(&self) -> &'static str {
        match self {
            Item::Tok { .. } => "T",
            Item::ErrInvalid { .. } => "I",
            Item::ErrCustom { .. } => "C",
        }
    }
}

/// One semantic-action invocation as seen from inside the action.
#[derive(Clone, Debug, PartialEq, Eq, Hash)]
pub struct Ev {
    pub rule: u32,
    pub ms: Loc,
    pub me: Loc,
    pub pk: Option<char>,
    /// `match_()` text (None for iterator input)
    pub tx: Option<String>,
    /// value of the action counter before this action
    pub cnt: u32,
    /// match_loc() after `reset_match()` when the action reset the match
    pub post: Option<(Loc, Loc)>,
    /// index of the `next()` call during which the action ran
    pub call: u32,
}

/// Extra facts the reference knows about each action (not observable on the lexgen side).
#[derive(Clone, Debug, Default)]
pub struct EvMeta {
    pub set: usize,
    pub logged: bool,
    pub via_eoi: bool,
    /// characters examined beyond the end of the selected match (rewind depth)
    pub rewind: usize,
    /// rewind crossed a non-ASCII, TAB or LF character
    pub rewind_wide: bool,
    /// number of rules that matched the selected lexeme (tie resolved by priority)
    pub tie: usize,
    /// lexeme start (char index)
    pub lex_start: usize,
    pub lex_end: usize,
    pub ctx_failed: usize,
    pub ctx_passed: usize,
    pub outcome: String,
    /// active rule set after the action (differs from `set` when the action switched)
    pub set_after: usize,
    /// match start (char position) before the scan that selected this match
    pub ms_before: usize,
}

#[derive(Clone, Debug, Default)]
pub struct RefStats {
    pub ambiguous_points: usize,
    pub rewinds: usize,
    pub max_rewind: usize,
    pub ties: usize,
    pub failures: usize,
    pub failures_non_init: usize,
    pub eoi_events: usize,
    pub sets_entered: Vec<usize>,
    pub switches: usize,
    pub ctx_evals_failed: usize,
    pub ctx_evals_passed: usize,
    pub chars_examined: u64,
    /// classification of where the input ended: (set at end != Init, 0 boundary/1 inside lexeme/2 after rewind, `$` rule fired)
    pub end_class: Option<(bool, u8, bool)>,
    /// failure position classes seen: 0 first char, 1 mid lexeme, 2 end of input; accumulated flag
    pub fail_classes: Vec<(u8, bool)>,
}

#[derive(Clone, Debug, Default)]
pub struct History {
    pub items: Vec<Item>,
    pub evs: Vec<Ev>,
    pub meta: Vec<EvMeta>,
    /// for each item: index (exclusive) into `evs` of events that happened up to and including
    /// the call that produced it
    pub item_ev_end: Vec<usize>,
    pub stats: RefStats,
    pub final_done: bool,
    /// for each item: char position at which the scan that produced it started, and the rule set
    /// that was active during that scan
    pub item_scan_pos: Vec<usize>,
    pub item_set: Vec<usize>,
    /// match start (char position) and action counter before the scan that produced the item
    pub item_ms: Vec<usize>,
    pub item_cnt: Vec<u32>,
    pub end_ms: usize,
    pub end_cnt: u32,
    /// position and rule set when the stream ended
    pub end_pos: usize,
    pub end_set: usize,
    /// why the stream ended: 1 = Init reached end of input at a lexeme boundary, 2 = end of input
    /// had already been acted upon by an earlier match or error (done flag)
    pub end_kind: u8,
}

pub struct CRule {
    pub id: u32,
    pub re: Re,
    pub ctx: Option<Re>,
    pub env: Env,
    pub act: Action,
    ctx_auto: Option<SetAuto>,
}

pub struct CSet {
    pub name: String,
    pub rules: Vec<CRule>,
    auto: SetAuto,
}

pub struct Compiled {
    pub spec: Spec,
    pub arena: Arena,
    pub sets: Vec<CSet>,
    /// characters examined by right-context evaluations (work estimate)
    pub ctx_steps: u64,
}

/// Location table: loc of every char position 0..=n by scanning from the beginning.
pub fn loc_table(input: &[char]) -> Vec<Loc> {
    let mut v = Vec::with_capacity(input.len() + 1);
    let mut cur = Loc::default();
    v.push(cur);
    for c in input {
        cur.byte += c.len_utf8();
        if *c == '\n' {
            cur.line += 1;
            cur.col = 0;
        } else if *c == '\t' {
            cur.col += 4;
        } else {
            cur.col += UnicodeWidthChar::width(*c).unwrap_or(1) as u32;
        }
        v.push(cur);
    }
    v
}

pub fn compile(spec: &Spec) -> Compiled {
    // collect all regexes with their environments
    let mut all: Vec<(Re, Env)> = vec![];
    for (si, set) in spec.sets.iter().enumerate() {
        for (ei, e) in set.entries.iter().enumerate() {
            if let Entry::Rule(r) = e {
                let env = spec.bindings_at(si, ei);
                all.push((r.re.clone(), env.clone()));
                if let Some(c) = &r.ctx {
                    all.push((c.clone(), env.clone()));
                }
            }
        }
    }
    let refs: Vec<(&Re, &Env)> = all.iter().map(|(r, e)| (r, e)).collect();
    let segs = segments_for(&refs);
    let mut arena = Arena::new(segs);
    let mut sets = vec![];
    for (si, set) in spec.sets.iter().enumerate() {
        let mut rules = vec![];
        let mut terms = vec![];
        for (ei, e) in set.entries.iter().enumerate() {
            if let Entry::Rule(r) = e {
                let env = spec.bindings_at(si, ei);
                let t = arena.from_re(&r.re, &env);
                terms.push(t);
                let ctx_auto = r.ctx.as_ref().map(|c| {
                    let ct = arena.from_re(c, &env);
                    SetAuto::new(vec![ct])
                });
                rules.push(CRule {
                    id: r.id,
                    re: r.re.clone(),
                    ctx: r.ctx.clone(),
                    env,
                    act: r.act.clone(),
                    ctx_auto,
                });
            }
        }
        sets.push(CSet {
            name: set.name.clone(),
            rules,
            auto: SetAuto::new(terms),
        });
    }
    Compiled {
        spec: spec.clone(),
        arena,
        sets,
        ctx_steps: 0,
    }
}

#[derive(Clone, Debug)]
pub struct Scan {
    /// (length in chars, via end-of-input, rule index in set)
    pub best: Option<(usize, bool, usize)>,
    pub consumed_on_fail: usize,
    pub saw_eoi: bool,
    pub ambiguous: bool,
    /// furthest char position examined (exclusive)
    pub furthest: usize,
    pub tie: usize,
    pub ctx_failed: usize,
    pub ctx_passed: usize,
}

impl Compiled {
    fn sym_of(&self, c: char) -> Sym {
        Sym::Seg(self.arena.segs.seg_of(c) as u32)
    }

    /// Right-context test with matcher A.
    pub fn ctx_ok(&mut self, set: usize, rule: usize, input: &[char], pos: usize) -> bool {
        let n = input.len();
        let mut auto = self.sets[set].rules[rule].ctx_auto.take().expect("ctx");
        let mut s = auto.init();
        let mut p = pos;
        let res = loop {
            if !auto.accepts(&mut self.arena, s).is_empty() {
                break true;
            }
            if p == n {
                // nothing but further end-of-input markers can follow: walk the `$` chain
                let mut seen = vec![s];
                let mut cur = s;
                break loop {
                    let t = auto.step(&mut self.arena, cur, Sym::Eoi);
                    if t == DEAD || seen.contains(&t) {
                        break false;
                    }
                    if !auto.accepts(&mut self.arena, t).is_empty() {
                        break true;
                    }
                    seen.push(t);
                    cur = t;
                };
            }
            let sym = self.sym_of(input[p]);
            let t = auto.step(&mut self.arena, s, sym);
            self.ctx_steps += 1;
            if t == DEAD {
                break false;
            }
            s = t;
            p += 1;
        };
        self.sets[set].rules[rule].ctx_auto = Some(auto);
        res
    }

    /// Scan one lexeme from `pos` in rule set `set`. `read_one` selects the behaviour at an
    /// ambiguous point (terminal automaton state whose accepting rules all have failed contexts).
    pub fn scan(&mut self, set: usize, input: &[char], pos: usize, read_one: bool) -> Scan {
        let n = input.len();
        let mut auto = std::mem::replace(&mut self.sets[set].auto, SetAuto::new(vec![]));
        let mut s = auto.init();
        let mut p = pos;
        let mut best: Option<(usize, bool, usize)> = None;
        let mut tie = 0usize;
        let mut ctx_failed = 0;
        let mut ctx_passed = 0;
        let mut sc = Scan {
            best: None,
            consumed_on_fail: 0,
            saw_eoi: false,
            ambiguous: false,
            furthest: pos,
            tie: 0,
            ctx_failed: 0,
            ctx_passed: 0,
        };
        loop {
            // accepting rules at this position (prefix input[pos..p])
            if p > pos {
                let acc = auto.accepts(&mut self.arena, s);
                let mut found = None;
                let mut passing = 0;
                for i in acc {
                    let ok = if self.sets[set].rules[i].ctx.is_some() {
                        // put automaton back temporarily: ctx_ok needs &mut self
                        let r = self.ctx_ok(set, i, input, p);
                        if r {
                            ctx_passed += 1;
                        } else {
                            ctx_failed += 1;
                        }
                        r
                    } else {
                        true
                    };
                    if ok {
                        passing += 1;
                        if found.is_none() {
                            found = Some(i);
                        }
                    }
                }
                if let Some(i) = found {
                    best = Some((p - pos, false, i));
                    tie = passing;
                }
            }
            let ce = auto.has_char_edge(&mut self.arena, s);
            let ee = auto.has_eoi_edge(&mut self.arena, s);
            if !ce && !ee && p > pos {
                // terminal state: nothing more can be matched
                if best.map(|b| b.0) != Some(p - pos) {
                    // accepting rules here (if any) all failed their contexts
                    sc.ambiguous = true;
                    if read_one {
                        if p == n {
                            sc.saw_eoi = true;
                            sc.consumed_on_fail = p - pos;
                            sc.furthest = p;
                        } else {
                            sc.consumed_on_fail = p - pos + 1;
                            sc.furthest = p + 1;
                        }
                    } else {
                        sc.consumed_on_fail = p - pos;
                        sc.furthest = p;
                    }
                } else {
                    sc.furthest = p;
                    sc.consumed_on_fail = p - pos;
                }
                break;
            }
            if p == n {
                sc.saw_eoi = true;
                sc.furthest = p;
                sc.consumed_on_fail = p - pos;
                // nothing but further end-of-input markers can follow: walk the `$` chain; the first
                // chain state with a passing rule decides (well-formed rules have one `$` per path,
                // so at most one chain state accepts)
                let mut seen = vec![s];
                let mut cur = s;
                while ee && best.map(|b| !b.1).unwrap_or(true) {
                    let t = auto.step(&mut self.arena, cur, Sym::Eoi);
                    if t == DEAD || seen.contains(&t) {
                        break;
                    }
                    seen.push(t);
                    cur = t;
                    {
                        let acc = auto.accepts(&mut self.arena, t);
                        let mut found = None;
                        let mut passing = 0;
                        for i in acc {
                            let ok = if self.sets[set].rules[i].ctx.is_some() {
                                // context after `$`: evaluated at end of input
                                let r = self.ctx_ok(set, i, input, n);
                                if r {
                                    ctx_passed += 1;
                                } else {
                                    ctx_failed += 1;
                                }
                                r
                            } else {
                                true
                            };
                            if ok {
                                passing += 1;
                                if found.is_none() {
                                    found = Some(i);
                                }
                            }
                        }
                        if let Some(i) = found {
                            best = Some((p - pos, true, i));
                            tie = passing;
                        }
                    }
                }
                break;
            }
            let sym = self.sym_of(input[p]);
            let t = auto.step(&mut self.arena, s, sym);
            if t == DEAD {
                sc.furthest = p + 1;
                sc.consumed_on_fail = p + 1 - pos;
                break;
            }
            s = t;
            p += 1;
        }
        self.sets[set].auto = auto;
        sc.best = best;
        sc.tie = tie;
        sc.ctx_failed = ctx_failed;
        sc.ctx_passed = ctx_passed;
        sc
    }

    /// All (length, via_eoi, rule) candidates at `pos` according to matcher B (cross-check).
    pub fn best_by_matcher_b(&self, set: usize, input: &[char], pos: usize) -> Option<(usize, bool, usize)> {
        self.best_by_matcher_b_excluding(set, input, pos, None)
    }

    /// Same, but pretending that candidate `banned` = (rule index in set, end position) did not match
    /// (e.g. "what if its right context had failed").
    pub fn best_by_matcher_b_excluding(&self, set: usize, input: &[char], pos: usize, banned: Option<(usize, usize)>) -> Option<(usize, bool, usize)> {
        let mut best: Option<(usize, bool, usize)> = None;
        for (i, r) in self.sets[set].rules.iter().enumerate() {
            let ends = matcher::ends(&r.re, &r.env, input, pos, false);
            for (e, via) in ends {
                let len = e - pos;
                if len == 0 && !via {
                    continue; // empty matches are outside well-formedness
                }
                if via && e != input.len() {
                    continue;
                }
                if banned == Some((i, e)) {
                    continue;
                }
                if let Some(c) = &r.ctx {
                    if !matcher::ctx_ok(c, &r.env, input, e) {
                        continue;
                    }
                }
                let cand = (len, via, i);
                best = Some(match best {
                    None => cand,
                    Some(b) => {
                        // longer wins; same length: via_eoi wins; then lower rule index
                        if (cand.0, cand.1 as u8) > (b.0, b.1 as u8)
                            || ((cand.0, cand.1) == (b.0, b.1) && cand.2 < b.2)
                        {
                            cand
                        } else {
                            b
                        }
                    }
                });
            }
        }
        best
    }
}

/// Configuration of the reference lexer between two `next()` calls.
#[derive(Clone, Debug)]
pub struct Config {
    pub pos: usize,
    pub set: usize,
    pub match_start: usize,
    pub done: bool,
    pub counter: u32,
    pub calls: u32,
}

impl Config {
    pub fn initial() -> Config {
        Config {
            pos: 0,
            set: 0,
            match_start: 0,
            done: false,
            counter: 0,
            calls: 0,
        }
    }
}

pub fn eval_guard(g: &Guard, pk: Option<char>, len_bytes: usize, cnt: u32) -> bool {
    match g {
        Guard::Always => true,
        Guard::PeekIs(c) => pk == Some(*c),
        Guard::PeekNone => pk.is_none(),
        Guard::LenParity(b) => (len_bytes % 2) as u8 == *b,
        Guard::CounterParity(b) => (cnt % 2) as u8 == *b,
    }
}

pub fn decide<'a>(act: &'a Action, id: u32, pk: Option<char>, len_bytes: usize, cnt: u32) -> Outcome {
    match act {
        Action::Skip => Outcome {
            reset: true,
            switch: None,
            fin: Fin::Continue,
        },
        Action::Simple(v) => {
            let _ = id;
            Outcome::ret(*v)
        }
        Action::Do(bs) | Action::Try(bs) => {
            for (g, o) in bs {
                if eval_guard(g, pk, len_bytes, cnt) {
                    return o.clone();
                }
            }
            panic!("action without default branch");
        }
    }
}

pub struct RefRun<'a> {
    pub c: &'a mut Compiled,
    pub input: &'a [char],
    pub locs: Vec<Loc>,
    pub text: bool,
    /// choices at ambiguous points: bit i says "read one more" at the i-th ambiguous point
    pub choices: u64,
    pub n_ambiguous: usize,
    pub cross_check: bool,
    pub cross_check_failures: Vec<String>,
    /// scan start position / active set of the scan that produced the last returned item
    pub last_scan_pos: usize,
    pub last_scan_set: usize,
    pub last_scan_ms: usize,
    pub last_scan_cnt: u32,
}

impl<'a> RefRun<'a> {
    pub fn new(c: &'a mut Compiled, input: &'a [char], text: bool, choices: u64, cross_check: bool) -> Self {
        let locs = loc_table(input);
        RefRun {
            c,
            input,
            locs,
            text,
            choices,
            n_ambiguous: 0,
            cross_check,
            cross_check_failures: vec![],
            last_scan_pos: 0,
            last_scan_set: 0,
            last_scan_ms: 0,
            last_scan_cnt: 0,
        }
    }

    /// One `next()` call. Appends to `h`.
    pub fn next(&mut self, cfg: &mut Config, h: &mut History) -> Option<Item> {
        let n = self.input.len();
        let call = cfg.calls;
        cfg.calls += 1;
        loop {
            if cfg.done {
                if h.end_kind == 0 {
                    h.end_kind = 2;
                }
                return None;
            }
            let read_one = if self.n_ambiguous < 64 {
                (self.choices >> self.n_ambiguous) & 1 == 1
            } else {
                false
            };
            self.last_scan_pos = cfg.pos;
            self.last_scan_set = cfg.set;
            self.last_scan_ms = cfg.match_start;
            self.last_scan_cnt = cfg.counter;
            let sc = self.c.scan(cfg.set, self.input, cfg.pos, read_one);
            h.stats.chars_examined += (sc.furthest - cfg.pos) as u64;
            h.stats.ctx_evals_failed += sc.ctx_failed;
            h.stats.ctx_evals_passed += sc.ctx_passed;
            if self.cross_check {
                let b = self.c.best_by_matcher_b(cfg.set, self.input, cfg.pos);
                if b != sc.best {
                    self.cross_check_failures.push(format!(
                        "matcher A {:?} vs matcher B {:?} at pos {} set {}",
                        sc.best, b, cfg.pos, cfg.set
                    ));
                }
            }
            match sc.best {
                None => {
                    if sc.ambiguous {
                        self.n_ambiguous += 1;
                        h.stats.ambiguous_points += 1;
                    }
                    if cfg.pos == n {
                        // input exhausted at a lexeme boundary
                        cfg.done = true;
                        h.stats.eoi_events += 1;
                        if cfg.set == 0 {
                            h.stats.end_class = Some((false, 0, false));
                            h.end_kind = 1;
                            return None;
                        }
                        h.stats.end_class = Some((true, 0, false));
                        h.stats.failures += 1;
                        h.stats.failures_non_init += 1;
                        h.stats.fail_classes.push((2, cfg.match_start < cfg.pos));
                        let item = Item::ErrInvalid {
                            loc: self.locs[cfg.match_start],
                        };
                        cfg.match_start = cfg.pos;
                        cfg.set = 0;
                        return Some(item);
                    }
                    h.stats.failures += 1;
                    if cfg.set != 0 {
                        h.stats.failures_non_init += 1;
                    }
                    let cls = if sc.saw_eoi {
                        2
                    } else if sc.consumed_on_fail <= 1 {
                        0
                    } else {
                        1
                    };
                    h.stats.fail_classes.push((cls, cfg.match_start < cfg.pos));
                    let item = Item::ErrInvalid {
                        loc: self.locs[cfg.match_start],
                    };
                    cfg.pos += sc.consumed_on_fail;
                    cfg.match_start = cfg.pos;
                    if sc.saw_eoi {
                        cfg.done = true;
                        h.stats.eoi_events += 1;
                        h.stats.end_class = Some((cfg.set != 0, 1, false));
                    }
                    cfg.set = 0;
                    return Some(item);
                }
                Some((len, via_eoi, ri)) => {
                    let lex_start = cfg.pos;
                    cfg.pos += len;
                    let rewind = sc.furthest - cfg.pos;
                    if rewind > 0 {
                        h.stats.rewinds += 1;
                        h.stats.max_rewind = h.stats.max_rewind.max(rewind);
                    }
                    if sc.tie > 1 {
                        h.stats.ties += 1;
                    }
                    let rewind_wide = self.input[cfg.pos..sc.furthest.min(n)]
                        .iter()
                        .any(|c| !c.is_ascii() || *c == '\t' || *c == '\n');
                    if via_eoi {
                        cfg.done = true;
                        h.stats.eoi_events += 1;
                        h.stats.end_class = Some((cfg.set != 0, if len > 0 { 1 } else { 0 }, true));
                    } else if sc.saw_eoi && cfg.pos == n {
                        // matched up to the end; end of input seen while looking for more
                    }
                    if sc.saw_eoi && !via_eoi && rewind > 0 {
                        h.stats.end_class = Some((cfg.set != 0, 2, false));
                    }
                    let rule = &self.c.sets[cfg.set].rules[ri];
                    let id = rule.id;
                    let act = rule.act.clone();
                    let ms = self.locs[cfg.match_start];
                    let me = self.locs[cfg.pos];
                    let pk = self.input.get(cfg.pos).copied();
                    let cnt = cfg.counter;
                    let logged = act.logs();
                    let out = decide(&act, id, pk, me.byte - ms.byte, cnt);
                    let mut ev = Ev {
                        rule: id,
                        ms,
                        me,
                        pk,
                        tx: if self.text {
                            Some(self.input[cfg.match_start..cfg.pos].iter().collect())
                        } else {
                            None
                        },
                        cnt,
                        post: None,
                        call,
                    };
                    if logged {
                        cfg.counter += 1;
                    }
                    if out.reset {
                        cfg.match_start = cfg.pos;
                        if logged {
                            ev.post = Some((me, me));
                        }
                    }
                    let set_at_action = cfg.set;
                    if let Some(name) = &out.switch {
                        let idx = self.c.spec.set_index(name).expect("switch target");
                        cfg.set = idx;
                        h.stats.switches += 1;
                    }
                    if !h.stats.sets_entered.contains(&set_at_action) {
                        h.stats.sets_entered.push(set_at_action);
                    }
                    h.evs.push(ev);
                    h.meta.push(EvMeta {
                        set: set_at_action,
                        logged,
                        via_eoi,
                        rewind,
                        rewind_wide,
                        tie: sc.tie,
                        lex_start,
                        lex_end: cfg.pos,
                        ctx_failed: sc.ctx_failed,
                        ctx_passed: sc.ctx_passed,
                        outcome: out.kind(),
                        set_after: cfg.set,
                        ms_before: self.last_scan_ms,
                    });
                    match out.fin {
                        Fin::Continue => continue,
                        Fin::Return(v) => {
                            let item = Item::Tok {
                                start: self.locs[cfg.match_start],
                                rule: id,
                                val: v,
                                end: self.locs[cfg.pos],
                            };
                            cfg.match_start = cfg.pos;
                            return Some(item);
                        }
                        Fin::Err(e) => {
                            let item = Item::ErrCustom {
                                loc: self.locs[cfg.match_start],
                                payload: e,
                            };
                            cfg.match_start = cfg.pos;
                            return Some(item);
                        }
                    }
                }
            }
        }
    }

    /// Run to completion (until None), with at most `max_items` items.
    pub fn run(&mut self, max_items: usize) -> History {
        self.run_from(Config::initial(), max_items)
    }

    /// Run from an arbitrary configuration (used to test hypotheses about the observed lexer).
    pub fn run_from(&mut self, start: Config, max_items: usize) -> History {
        let mut h = History::default();
        let mut cfg = start;
        loop {
            match self.next(&mut cfg, &mut h) {
                None => {
                    h.final_done = true;
                    h.end_pos = cfg.pos;
                    h.end_set = cfg.set;
                    h.end_ms = cfg.match_start;
                    h.end_cnt = cfg.counter;
                    break;
                }
                Some(it) => {
                    h.items.push(it);
                    h.item_scan_pos.push(self.last_scan_pos);
                    h.item_set.push(self.last_scan_set);
                    h.item_ms.push(self.last_scan_ms);
                    h.item_cnt.push(self.last_scan_cnt);
                    h.item_ev_end.push(h.evs.len());
                    if h.items.len() > max_items {
                        break;
                    }
                }
            }
        }
        h
    }
}

impl Compiled {
    pub fn take_auto(&mut self, set: usize) -> SetAuto {
        std::mem::replace(&mut self.sets[set].auto, SetAuto::new(vec![]))
    }
    pub fn put_auto(&mut self, set: usize, auto: SetAuto) {
        self.sets[set].auto = auto;
    }
    pub fn n_auto_states(&self) -> usize {
        self.sets.iter().map(|s| s.auto.n_states()).sum()
    }
}
