//! Reference model, generators and printers for the lexgen verification harness.
//! No dependency on lexgen: everything here is an independent formulation of the documented
//! behaviour.

pub mod altparse;
pub mod class;
pub mod deriv;
pub mod gen;
pub mod inputs;
pub mod json;
pub mod matcher;
pub mod print;
pub mod reflex;
pub mod rng;
pub mod spec;
pub mod wf;

#[cfg(test)]
mod selftest;
