//! specgen: (family, seed, indices) -> batch source file + line map.
//!
//! usage:
//!   specgen batch --family F --seed S --indices 0-149 --variants base|equiv|desugar|print
//!                 --name NAME --out FILE [--skip "3.0,7.1"]
//!   specgen replay --spec-file FILE --name NAME --out FILE      (one case; variants one per line: label<TAB>paren<TAB>desugar<TAB>sexpr)
//!   specgen print --family F --seed S --index I                 (debug)

use std::collections::{BTreeMap, HashSet};
use std::fmt::Write as _;
use vmodel::gen::{self, gen_family_spec, mk_opts, Case, Variant};
use vmodel::json::J;
use vmodel::print::{print_lexer, summarize, Paren};
use vmodel::rng::{hash64, Rng};
use vmodel::spec::{Action, Entry, Spec};
use vmodel::wf::check_wf;

fn arg(args: &[String], k: &str) -> Option<String> {
    args.iter().position(|a| a == k).and_then(|i| args.get(i + 1).cloned())
}

fn parse_indices(s: &str) -> Vec<usize> {
    let mut v = vec![];
    for part in s.split(',') {
        if part.is_empty() {
            continue;
        }
        if let Some((a, b)) = part.split_once('-') {
            let a: usize = a.parse().unwrap();
            let b: usize = b.parse().unwrap();
            v.extend(a..=b);
        } else {
            v.push(part.parse().unwrap());
        }
    }
    v
}

fn paren_name(p: Paren) -> &'static str {
    match p {
        Paren::Minimal => "minimal",
        Paren::Full => "full",
        Paren::Redundant => "redundant",
    }
}

fn has_sugar(spec: &Spec) -> bool {
    spec.all_rules().any(|(_, r)| matches!(r.act, Action::Skip | Action::Simple(_)))
}

pub fn build_case(family: &str, seed: u64, index: usize, mode: &str) -> Case {
    let spec = gen_family_spec(family, seed, index);
    let mut rng = Rng::derive(seed, &[hash64(family.as_bytes()), index as u64, 4242]);
    // Outside the C16 check every definition is printed fully parenthesised, so that the reading
    // of the text does not depend on the parser's precedence rules (C16's own mode `print`
    // compiles the minimal, full, redundant and let-factored printings side by side).
    let _ = rng.below(4);
    let base_paren = Paren::Full;
    let pseed = rng.next_u64();
    let mut variants = vec![];
    match mode {
        "equiv" => {
            // fully parenthesised: the reading of the printed text must not depend on precedence
            // (that is C16's subject)
            let base_paren = Paren::Full;
            variants.push(Variant {
                spec: spec.clone(),
                opts: mk_opts("L", base_paren, false, pseed),
                label: format!("base/{}", paren_name(base_paren)),
            });
            // rewrite one rule's regex by a documented equivalence
            let mut s2 = spec.clone();
            let mut why = None;
            'outer: for set in s2.sets.iter_mut() {
                for e in set.entries.iter_mut() {
                    if let Entry::Rule(r) = e {
                        if let Some((n, w)) = gen::equiv_rewrite(&r.re, &mut rng) {
                            r.re = n;
                            why = Some(w);
                            break 'outer;
                        }
                    }
                }
            }
            if let Some(w) = why {
                if check_wf(&s2).is_ok() {
                    variants.push(Variant {
                        spec: s2,
                        opts: mk_opts("L", base_paren, false, pseed),
                        label: format!("equiv: {}", w),
                    });
                }
            }
        }
        "desugar" => {
            variants.push(Variant {
                spec: spec.clone(),
                opts: mk_opts("L", base_paren, false, pseed),
                label: format!("base/{}", paren_name(base_paren)),
            });
            if has_sugar(&spec) {
                variants.push(Variant {
                    spec: spec.clone(),
                    opts: mk_opts("L", base_paren, true, pseed),
                    label: "desugar: `re,` and `re = t` written as their documented expansions".to_string(),
                });
            }
        }
        "print" => {
            variants.push(Variant {
                spec: spec.clone(),
                opts: mk_opts("L", Paren::Minimal, false, pseed),
                label: "print: minimal parentheses".to_string(),
            });
            variants.push(Variant {
                spec: spec.clone(),
                opts: mk_opts("L", Paren::Full, false, pseed),
                label: "print: fully parenthesised".to_string(),
            });
            variants.push(Variant {
                spec: spec.clone(),
                opts: mk_opts("L", Paren::Redundant, false, pseed),
                label: "print: redundant parentheses".to_string(),
            });
            let mut s2 = spec.clone();
            let mut any = false;
            let k = rng.range(1, 3);
            for _ in 0..k {
                any |= gen::factor_let(&mut s2, &mut rng);
            }
            if any && check_wf(&s2).is_ok() {
                variants.push(Variant {
                    spec: s2,
                    opts: mk_opts("L", Paren::Minimal, false, pseed),
                    label: "print: subtrees named with let".to_string(),
                });
            }
        }
        _ => {
            variants.push(Variant {
                spec: spec.clone(),
                opts: mk_opts("L", base_paren, false, pseed),
                label: format!("base/{}", paren_name(base_paren)),
            });
        }
    }
    Case {
        family: family.to_string(),
        index,
        variants,
    }
}

fn rust_str(s: &str) -> String {
    format!("{:?}", s)
}

/// Emit a batch source file. Returns (source, map json).
fn emit(name: &str, cases: &[Case], skip: &HashSet<(usize, usize)>) -> (String, J) {
    let mut src = String::new();
    let mut map = vec![];
    src.push_str("// generated by specgen; do not edit\n");
    src.push_str("#![allow(unused, non_snake_case, non_camel_case_types, clippy::all)]\n");
    src.push_str("use vdrive::{St, Tok};\n\n");
    let mut line = 4usize; // next line number (1-based) after the header above
    for (ci, c) in cases.iter().enumerate() {
        for (vi, v) in c.variants.iter().enumerate() {
            if skip.contains(&(ci, vi)) {
                continue;
            }
            let start = line;
            let mut m = String::new();
            writeln!(m, "mod c{}v{} {{", ci, vi).unwrap();
            writeln!(m, "    use super::*;").unwrap();
            writeln!(m, "    use lexgen::lexer;").unwrap();
            let lx = print_lexer(&v.spec, &v.opts);
            let lex_start = line + 3;
            m.push_str(&lx);
            let lex_end = lex_start + lx.matches('\n').count() - 1;
            writeln!(m, "    vdrive::glue!(L);").unwrap();
            writeln!(m, "}}").unwrap();
            let nl = m.matches('\n').count();
            src.push_str(&m);
            line += nl;
            map.push(
                J::obj()
                    .with("case", J::i(ci))
                    .with("variant", J::i(vi))
                    .with("family", J::s(&c.family))
                    .with("index", J::i(c.index))
                    .with("label", J::s(&v.label))
                    .with("start", J::i(start))
                    .with("end", J::i(line - 1))
                    .with("lexer_start", J::i(lex_start))
                    .with("lexer_end", J::i(lex_end))
                    .with("spec", J::s(&v.spec.to_text()))
                    .with("summary", J::s(&summarize(&v.spec)))
                    .with("source", J::s(&lx)),
            );
        }
    }
    src.push_str("\nfn main() {\n    let cases = vec![\n");
    for (ci, c) in cases.iter().enumerate() {
        writeln!(src, "        vdrive::CaseEntry {{ family: {}, index: {}, variants: vec![", rust_str(&c.family), c.index).unwrap();
        for (vi, v) in c.variants.iter().enumerate() {
            let fac = if skip.contains(&(ci, vi)) {
                "None".to_string()
            } else {
                format!("Some(c{}v{}::factory())", ci, vi)
            };
            writeln!(src, "            ({}, {}, {}),", rust_str(&v.label), rust_str(&v.spec.to_text()), fac).unwrap();
        }
        src.push_str("        ] },\n");
    }
    src.push_str("    ];\n");
    writeln!(src, "    vdrive::driver::run_batch({}, &cases);", rust_str(name)).unwrap();
    src.push_str("}\n");
    (src, J::Arr(map))
}

fn main() {
    let args: Vec<String> = std::env::args().collect();
    let cmd = args.get(1).map(|s| s.as_str()).unwrap_or("");
    match cmd {
        "batch" => {
            let family = arg(&args, "--family").expect("--family");
            let seed: u64 = arg(&args, "--seed").expect("--seed").parse().unwrap();
            let indices = parse_indices(&arg(&args, "--indices").expect("--indices"));
            let mode = arg(&args, "--variants").unwrap_or_else(|| "base".into());
            let name = arg(&args, "--name").expect("--name");
            let out = arg(&args, "--out").expect("--out");
            let mut skip = HashSet::new();
            if let Some(s) = arg(&args, "--skip") {
                for part in s.split(',') {
                    if let Some((a, b)) = part.split_once('.') {
                        skip.insert((a.parse::<usize>().unwrap(), b.parse::<usize>().unwrap()));
                    }
                }
            }
            if family == "illformed" {
                let (src, map) = extra::emit_illformed(&name, seed, &indices);
                std::fs::write(&out, src).unwrap();
                std::fs::write(format!("{}.map.json", out), map.to_string()).unwrap();
                return;
            }
            if family == "multi" {
                let cases: Vec<Case> = indices.iter().map(|i| extra::build_multi_case(seed, *i)).collect();
                let (src, map) = extra::emit_multi(&name, &cases, &skip);
                std::fs::write(&out, src).unwrap();
                std::fs::write(format!("{}.map.json", out), map.to_string()).unwrap();
                return;
            }
            let cases: Vec<Case> = indices.iter().map(|i| build_case(&family, seed, *i, &mode)).collect();
            let (src, map) = emit(&name, &cases, &skip);
            std::fs::write(&out, src).unwrap();
            std::fs::write(format!("{}.map.json", out), map.to_string()).unwrap();
        }
        "replay" => {
            // spec file: one variant per line: label \t paren \t desugar(0/1) \t seed \t sexpr
            let file = arg(&args, "--spec-file").expect("--spec-file");
            let name = arg(&args, "--name").expect("--name");
            let out = arg(&args, "--out").expect("--out");
            let family = arg(&args, "--family").unwrap_or_else(|| "replay".into());
            let index: usize = arg(&args, "--index").map(|s| s.parse().unwrap()).unwrap_or(0);
            let text = std::fs::read_to_string(file).unwrap();
            let mut variants = vec![];
            for l in text.lines() {
                if l.trim().is_empty() {
                    continue;
                }
                let f: Vec<&str> = l.splitn(5, '\t').collect();
                let paren = match f[1] {
                    "full" => Paren::Full,
                    "redundant" => Paren::Redundant,
                    _ => Paren::Minimal,
                };
                let spec = Spec::from_text(f[4]).expect("spec");
                variants.push(Variant {
                    spec,
                    opts: mk_opts("L", paren, f[2] == "1", f[3].parse().unwrap_or(0)),
                    label: f[0].to_string(),
                });
            }
            let cases = vec![Case {
                family,
                index,
                variants,
            }];
            let (src, map) = emit(&name, &cases, &HashSet::new());
            std::fs::write(&out, src).unwrap();
            std::fs::write(format!("{}.map.json", out), map.to_string()).unwrap();
        }
        "print" => {
            let family = arg(&args, "--family").expect("--family");
            let seed: u64 = arg(&args, "--seed").unwrap_or("1".into()).parse().unwrap();
            let index: usize = arg(&args, "--index").unwrap_or("0".into()).parse().unwrap();
            let mode = arg(&args, "--variants").unwrap_or_else(|| "base".into());
            let c = build_case(&family, seed, index, &mode);
            for v in &c.variants {
                println!("// {}", v.label);
                println!("// {}", v.spec.to_text());
                println!("{}", print_lexer(&v.spec, &v.opts));
            }
        }
        "count" => {
            let mut m = BTreeMap::new();
            m.insert("langx", gen::langx_exhaustive_len());
            m.insert("precx", gen::precx_exhaustive_len());
            for (k, v) in m {
                println!("{} {}", k, v);
            }
        }
        _ => {
            eprintln!("usage: specgen batch|replay|print|count ...");
            std::process::exit(2);
        }
    }
}

// ---------------------------------------------------------------------------------------------
// multi-lexer modules and ill-formed mutants

pub mod extra {
    use super::*;
    use vmodel::spec::{Re, Rule};

    /// Several independent lexers declared in ONE module (names L0, L1, ...).
    pub fn build_multi_case(seed: u64, index: usize) -> Case {
        let mut rng = Rng::derive(seed, &[hash64(b"multi"), index as u64]);
        let k = rng.range(2, 4);
        let fams = ["bigclass", "rctx", "mixed", "actions", "bigclass"];
        let mut variants = vec![];
        for i in 0..k {
            let fam = *rng.pick(&fams);
            let spec = gen_family_spec(fam, seed, index * 8 + i);
            variants.push(Variant {
                spec,
                opts: mk_opts(&format!("L{}", i), Paren::Minimal, false, 0),
                label: format!("multi: lexer {} of {} in one module ({})", i, k, fam),
            });
        }
        Case {
            family: "multi".to_string(),
            index,
            variants,
        }
    }

    pub fn emit_multi(name: &str, cases: &[Case], skip: &HashSet<(usize, usize)>) -> (String, J) {
        let mut src = String::new();
        let mut map = vec![];
        src.push_str("// generated by specgen; do not edit\n");
        src.push_str("#![allow(unused, non_snake_case, non_camel_case_types, clippy::all)]\n");
        src.push_str("use vdrive::{St, Tok};\n\n");
        let mut line = 4usize;
        for (ci, c) in cases.iter().enumerate() {
            let whole_skipped = (0..c.variants.len()).any(|vi| skip.contains(&(ci, vi)));
            if whole_skipped {
                continue;
            }
            let start = line;
            let mut m = String::new();
            writeln!(m, "mod c{} {{", ci).unwrap();
            writeln!(m, "    use super::*;").unwrap();
            writeln!(m, "    use lexgen::lexer;").unwrap();
            let mut cur = line + 3;
            let mut ents = vec![];
            for (vi, v) in c.variants.iter().enumerate() {
                let lx = print_lexer(&v.spec, &v.opts);
                let n = lx.matches('\n').count();
                ents.push((vi, cur, cur + n - 1, lx.clone()));
                m.push_str(&lx);
                writeln!(m, "    pub mod g{} {{ use super::*; vdrive::glue!({}); }}", vi, v.opts.name).unwrap();
                cur += n + 1;
            }
            writeln!(m, "}}").unwrap();
            let nl = m.matches('\n').count();
            src.push_str(&m);
            line += nl;
            for (vi, ls, le, lx) in ents {
                let v = &c.variants[vi];
                map.push(
                    J::obj()
                        .with("case", J::i(ci))
                        .with("variant", J::i(vi))
                        .with("family", J::s(&c.family))
                        .with("index", J::i(c.index))
                        .with("label", J::s(&v.label))
                        .with("start", J::i(if vi == 0 { start } else { ls }))
                        .with("end", J::i(le + 1))
                        .with("lexer_start", J::i(ls))
                        .with("lexer_end", J::i(le))
                        .with("spec", J::s(&v.spec.to_text()))
                        .with("summary", J::s(&summarize(&v.spec)))
                        .with("source", J::s(&lx)),
                );
            }
        }
        src.push_str("\nfn main() {\n    let cases = vec![\n");
        for (ci, c) in cases.iter().enumerate() {
            let whole_skipped = (0..c.variants.len()).any(|vi| skip.contains(&(ci, vi)));
            writeln!(src, "        vdrive::CaseEntry {{ family: {}, index: {}, variants: vec![", rust_str(&c.family), c.index).unwrap();
            for (vi, v) in c.variants.iter().enumerate() {
                let fac = if whole_skipped {
                    "None".to_string()
                } else {
                    format!("Some(c{}::g{}::factory())", ci, vi)
                };
                writeln!(src, "            ({}, {}, {}),", rust_str(&v.label), rust_str(&v.spec.to_text()), fac).unwrap();
            }
            src.push_str("        ] },\n");
        }
        src.push_str("    ];\n");
        writeln!(src, "    vdrive::driver::run_batch({}, &cases);", rust_str(name)).unwrap();
        src.push_str("}\n");
        (src, J::Arr(map))
    }

    fn subtree_paths(re: &Re, path: &mut Vec<u8>, out: &mut Vec<Vec<u8>>) {
        out.push(path.clone());
        match re {
            Re::Star(a) | Re::Plus(a) | Re::Opt(a) => {
                path.push(0);
                subtree_paths(a, path, out);
                path.pop();
            }
            Re::Cat(a, b) | Re::Alt(a, b) | Re::Diff(a, b) => {
                path.push(0);
                subtree_paths(a, path, out);
                path.pop();
                path.push(1);
                subtree_paths(b, path, out);
                path.pop();
            }
            _ => {}
        }
    }

    fn replace_at(re: &mut Re, path: &[u8], new: Re) {
        if path.is_empty() {
            *re = new;
            return;
        }
        match re {
            Re::Star(a) | Re::Plus(a) | Re::Opt(a) => replace_at(a, &path[1..], new),
            Re::Cat(a, b) | Re::Alt(a, b) | Re::Diff(a, b) => {
                if path[0] == 0 {
                    replace_at(a, &path[1..], new)
                } else {
                    replace_at(b, &path[1..], new)
                }
            }
            _ => {}
        }
    }

    fn rule_positions(spec: &Spec) -> Vec<(usize, usize)> {
        let mut v = vec![];
        for (si, s) in spec.sets.iter().enumerate() {
            for (ei, e) in s.entries.iter().enumerate() {
                if let Entry::Rule(_) = e {
                    v.push((si, ei));
                }
            }
        }
        v
    }

    fn rule_mut(spec: &mut Spec, pos: (usize, usize)) -> &mut Rule {
        match &mut spec.sets[pos.0].entries[pos.1] {
            Entry::Rule(r) => r,
            _ => unreachable!(),
        }
    }

    /// Replace a random subtree (not under `#`, to keep the violation single) of a random rule.
    fn plant(spec: &mut Spec, rng: &mut Rng, new: Re, in_ctx: bool) -> String {
        let pos = *rng.pick(&rule_positions(spec));
        let r = rule_mut(spec, pos);
        if in_ctx {
            match &mut r.ctx {
                Some(c) => {
                    let mut paths = vec![];
                    subtree_paths(c, &mut vec![], &mut paths);
                    let paths: Vec<Vec<u8>> = paths.into_iter().filter(|p| !under_diff(c, p)).collect();
                    let p = rng.pick(&paths).clone();
                    replace_at(c, &p, new);
                }
                None => r.ctx = Some(new),
            }
            format!("context of rule {} in set {}", r.id, pos.0)
        } else {
            let mut paths = vec![];
            subtree_paths(&r.re, &mut vec![], &mut paths);
            let re_copy = r.re.clone();
            let paths: Vec<Vec<u8>> = paths.into_iter().filter(|p| !under_diff(&re_copy, p)).collect();
            let p = rng.pick(&paths).clone();
            if p.is_empty() {
                // keep the rule non-trivial: concatenate instead of replacing the whole regex
                r.re = Re::cat(new, r.re.clone());
            } else {
                replace_at(&mut r.re, &p, new);
            }
            format!("regex of rule {} in set {}", r.id, pos.0)
        }
    }

    fn under_diff(re: &Re, path: &[u8]) -> bool {
        let mut cur = re;
        for (i, b) in path.iter().enumerate() {
            if let Re::Diff(_, _) = cur {
                let _ = i;
                return true;
            }
            cur = match cur {
                Re::Star(a) | Re::Plus(a) | Re::Opt(a) => a,
                Re::Cat(a, c) | Re::Alt(a, c) | Re::Diff(a, c) => {
                    if *b == 0 {
                        a
                    } else {
                        c
                    }
                }
                _ => return false,
            };
        }
        false
    }

    pub struct Mutant {
        pub kind: String,
        pub where_: String,
        pub text: String,
        pub control: bool,
    }

    fn printed(spec: &Spec) -> String {
        print_lexer(spec, &mk_opts("L", Paren::Minimal, false, 0))
    }

    /// Control + one mutant per violation kind, each with exactly one seeded static violation.
    pub fn build_illformed(seed: u64, index: usize) -> Vec<Mutant> {
        let mut rng = Rng::derive(seed, &[hash64(b"illformed"), index as u64]);
        // base: a named multi-set spec with a top-level let, an error type and at least two sets
        let mut base = loop {
            let i = rng.below(1 << 20);
            let s = gen_family_spec(if rng.chance(1, 2) { "scope" } else { "mixed" }, seed, i);
            if s.named && s.sets.len() >= 2 {
                break s;
            }
        };
        base.error_type = true;
        if base.lets.is_empty() {
            base.lets.push(("t".to_string(), Re::Chr('a')));
        }
        // make sure some rule has a context (for the context mutants the plant adds one anyway)
        let control_text = printed(&base);
        let mut out = vec![Mutant {
            kind: "control".into(),
            where_: "".into(),
            text: control_text.clone(),
            control: true,
        }];
        let mut push = |kind: &str, where_: String, spec: &Spec| {
            out.push(Mutant {
                kind: kind.to_string(),
                where_,
                text: printed(spec),
                control: false,
            });
        };
        // 1-2 unbound variable in a rule / in a context
        {
            let mut s = base.clone();
            let w = plant(&mut s, &mut rng, Re::var("nope"), false);
            push("unbound variable in a rule", w, &s);
            let mut s = base.clone();
            let w = plant(&mut s, &mut rng, Re::var("nope"), true);
            push("unbound variable in a right context", w, &s);
        }
        // 3 unbound variable inside a let that is used
        {
            let mut s = base.clone();
            let si = rng.below(s.sets.len());
            let top = rng.chance(1, 2);
            if top {
                s.lets.push(("u".to_string(), Re::cat(Re::var("nope"), Re::Chr('a'))));
            } else {
                s.sets[si].entries.insert(0, Entry::Let("u".to_string(), Re::cat(Re::var("nope"), Re::Chr('a'))));
            }
            s.sets[si].entries.push(Entry::Rule(Rule {
                id: 900,
                re: Re::cat(Re::var("u"), Re::Chr('b')),
                ctx: None,
                act: Action::Simple(0),
            }));
            push("unbound variable inside a let that is used", format!("{} let, used in set {}", if top { "top-level" } else { "local" }, si), &s);
        }
        // 3b-3e scoping: a variable that exists, but not in the scope where it is used
        {
            let n = base.sets.len();
            // local to an EARLIER rule set, used in a later one
            let mut s = base.clone();
            let i = rng.below(n - 1);
            let j = rng.range(i + 1, n - 1);
            s.sets[i].entries.insert(0, Entry::Let("loc".to_string(), Re::Chr('a')));
            s.sets[i].entries.push(Entry::Rule(Rule { id: 901, re: Re::cat(Re::var("loc"), Re::Chr('c')), ctx: None, act: Action::Simple(0) }));
            let in_ctx = rng.chance(1, 3);
            s.sets[j].entries.push(Entry::Rule(Rule {
                id: 902,
                re: if in_ctx { Re::Chr('b') } else { Re::cat(Re::var("loc"), Re::Chr('b')) },
                ctx: if in_ctx { Some(Re::var("loc")) } else { None },
                act: Action::Simple(0),
            }));
            push("variable local to an earlier rule set used in a later one", format!("let in set {}, use in set {}{}", i, j, if in_ctx { " (context)" } else { "" }), &s);
            // local to a LATER rule set, used in an earlier one
            let mut s = base.clone();
            let j = rng.below(n - 1);
            let i = rng.range(j + 1, n - 1);
            s.sets[i].entries.insert(0, Entry::Let("loc".to_string(), Re::Chr('a')));
            s.sets[i].entries.push(Entry::Rule(Rule { id: 901, re: Re::cat(Re::var("loc"), Re::Chr('c')), ctx: None, act: Action::Simple(0) }));
            s.sets[j].entries.push(Entry::Rule(Rule { id: 902, re: Re::cat(Re::var("loc"), Re::Chr('b')), ctx: None, act: Action::Simple(0) }));
            push("variable local to a later rule set used in an earlier one", format!("let in set {}, use in set {}", i, j), &s);
            // used before its let inside the same rule set
            let mut s = base.clone();
            let i = rng.below(n);
            s.sets[i].entries.push(Entry::Rule(Rule { id: 902, re: Re::cat(Re::var("late"), Re::Chr('b')), ctx: None, act: Action::Simple(0) }));
            s.sets[i].entries.push(Entry::Let("late".to_string(), Re::Chr('a')));
            s.sets[i].entries.push(Entry::Rule(Rule { id: 901, re: Re::cat(Re::var("late"), Re::Chr('c')), ctx: None, act: Action::Simple(0) }));
            push("variable used before its let in the same rule set", format!("set {}", i), &s);
            // top-level let written between two rule sets, used in a rule set before it
            let mut s = base.clone();
            let i = rng.range(1, n - 1);
            s.sets[i].pre_lets.push(("mid".to_string(), Re::Chr('a')));
            s.sets[i].entries.push(Entry::Rule(Rule { id: 901, re: Re::cat(Re::var("mid"), Re::Chr('c')), ctx: None, act: Action::Simple(0) }));
            let j = rng.below(i);
            s.sets[j].entries.push(Entry::Rule(Rule { id: 902, re: Re::cat(Re::var("mid"), Re::Chr('b')), ctx: None, act: Action::Simple(0) }));
            push("top-level let between rule sets used in an earlier rule set", format!("let before set {}, use in set {}", i, j), &s);
        }
        // 4-6 variable defined twice
        {
            let mut s = base.clone();
            let (n, r) = s.lets[rng.below(s.lets.len())].clone();
            s.lets.push((n, r));
            push("variable defined twice (top-level / top-level)", "".into(), &s);
            let mut s = base.clone();
            let (n, _) = s.lets[rng.below(s.lets.len())].clone();
            let si = rng.below(s.sets.len());
            let at = rng.below(s.sets[si].entries.len() + 1);
            s.sets[si].entries.insert(at, Entry::Let(n, Re::Chr('b')));
            push("variable defined twice (top-level / rule-set-local)", format!("set {} entry {}", si, at), &s);
            let mut s = base.clone();
            let si = rng.below(s.sets.len());
            s.sets[si].entries.insert(0, Entry::Let("w".to_string(), Re::Chr('a')));
            let at = rng.range(1, s.sets[si].entries.len());
            s.sets[si].entries.insert(at, Entry::Let("w".to_string(), Re::Chr('b')));
            push("variable defined twice (local / local)", format!("set {} entries 0 and {}", si, at), &s);
        }
        // 7 rule set defined twice
        {
            let mut s = base.clone();
            let si = rng.below(s.sets.len());
            let mut dup = s.sets[si].clone();
            dup.pre_lets.clear();
            dup.entries.retain(|e| matches!(e, Entry::Rule(_)));
            dup.entries.truncate(1);
            let at = rng.range(si + 1, s.sets.len());
            s.sets.insert(at, dup);
            push("rule set defined twice", format!("set {} repeated at position {}", si, at), &s);
        }
        // 8 first rule set not named Init (renamed everywhere)
        {
            let mut s = base.clone();
            s.sets[0].name = "Start".into();
            for set in s.sets.iter_mut() {
                for e in set.entries.iter_mut() {
                    if let Entry::Rule(r) = e {
                        if let Action::Do(bs) | Action::Try(bs) = &mut r.act {
                            for (_, o) in bs.iter_mut() {
                                if o.switch.as_deref() == Some("Init") {
                                    o.switch = Some("Start".into());
                                }
                            }
                        }
                    }
                }
            }
            push("first rule set not named Init", "".into(), &s);
        }
        // 9 Init is not the first rule set
        {
            let mut s = base.clone();
            let init = s.sets.remove(0);
            let at = rng.range(1, s.sets.len());
            s.sets.insert(at, init);
            push("Init is not the first rule set", format!("Init at position {}", at), &s);
        }
        // 10 unknown built-in
        {
            let mut s = base.clone();
            let in_ctx = rng.chance(1, 3);
            let w = plant(&mut s, &mut rng, Re::bi("nope"), in_ctx);
            push("unknown built-in", w, &s);
        }
        // 11.. operand of `#` that is not a character class
        {
            let bad: Vec<(&str, Re)> = vec![
                ("string", Re::str("ab")),
                ("`*`", Re::star(Re::Chr('a'))),
                ("`+`", Re::plus(Re::Chr('a'))),
                ("`?`", Re::opt(Re::Chr('a'))),
                ("concatenation", Re::cat(Re::Chr('a'), Re::Chr('b'))),
                ("`$`", Re::Eoi),
            ];
            for (name, x) in bad {
                let mut s = base.clone();
                let left = rng.chance(1, 2);
                let d = if left {
                    Re::diff(x.clone(), Re::Chr('z'))
                } else {
                    Re::diff(Re::Any, x.clone())
                };
                let in_ctx = rng.chance(1, 4);
                let w = plant(&mut s, &mut rng, d, in_ctx);
                push(&format!("{} operand of # is a {}", if left { "left" } else { "right" }, name), w, &s);
            }
            // the same violations to the right of a left operand that evaluates to the EMPTY class
            // (a checker that stops looking once nothing is left to remove would miss them)
            let bad2: Vec<(&str, Re)> = vec![
                ("string", Re::str("ab")),
                ("`*`", Re::star(Re::Chr('a'))),
                ("`+`", Re::plus(Re::Chr('a'))),
                ("`?`", Re::opt(Re::Chr('a'))),
                ("concatenation", Re::cat(Re::Chr('a'), Re::Chr('b'))),
                ("`$`", Re::Eoi),
                ("unbound variable", Re::var("nope")),
                ("unknown built-in", Re::bi("nope")),
            ];
            for (name, x) in bad2 {
                let mut s = base.clone();
                let empty_left = Re::diff(Re::range('a', 'c'), Re::range('a', 'z'));
                let d = Re::diff(empty_left, x.clone());
                // keep the rule matchable: alternative next to an ordinary character
                let w = plant(&mut s, &mut rng, Re::alt(d, Re::Chr('q')), false);
                push(&format!("right operand of # after an empty left class is a {}", name), w, &s);
            }
            // variable bound to a non-class
            let mut s = base.clone();
            s.lets.push(("nc".to_string(), Re::str("ab")));
            let w = plant(&mut s, &mut rng, Re::diff(Re::Any, Re::var("nc")), false);
            push("right operand of # is a variable bound to a string", w, &s);
        }
        // ---- text-level violations
        let lines: Vec<String> = control_text.lines().map(|l| l.to_string()).collect();
        let join = |ls: &Vec<String>| -> String {
            let mut t = ls.join("\n");
            t.push('\n');
            t
        };
        let find = |pred: &dyn Fn(&str) -> bool| -> Vec<usize> { (0..lines.len()).filter(|i| pred(&lines[*i])).collect() };
        let mut text_mut = |kind: &str, where_: String, ls: Vec<String>| {
            out.push(Mutant {
                kind: kind.to_string(),
                where_,
                text: join(&ls),
                control: false,
            });
        };
        let first_rule_line = find(&|l| l.trim_start().starts_with("rule "))[0];
        {
            let mut ls = lines.clone();
            ls.insert(first_rule_line, "        'q' = Tok(99, 0),".to_string());
            text_mut("named and unnamed rules mixed", "unnamed rule before the first rule set".into(), ls);
            let mut ls = lines.clone();
            let last = ls.len() - 1;
            ls.insert(last, "        'q' = Tok(99, 0),".to_string());
            text_mut("named and unnamed rules mixed", "unnamed rule after the last rule set".into(), ls);
        }
        {
            let err_line = find(&|l| l.trim_start().starts_with("type Error"))[0];
            let mut ls = lines.clone();
            let at = if rng.chance(1, 2) { err_line + 1 } else { first_rule_line };
            ls.insert(at, "        type Error = u32;".to_string());
            text_mut("error type declared twice", format!("second declaration at line {}", at), ls);
            let mut ls = lines.clone();
            ls[err_line] = "        type Failure = u32;".to_string();
            text_mut("malformed syntax: `type` item that is not `type Error`", "".into(), ls);
        }
        let action_lines = find(&|l| (l.contains("=> |lexer|") || l.contains("=? |lexer|") || l.contains("= Tok(")) && l.trim_end().ends_with(','));
        if !action_lines.is_empty() {
            // missing comma after a rule that is followed by another rule
            let cands: Vec<usize> = action_lines.iter().copied().filter(|i| action_lines.contains(&(i + 1))).collect();
            if !cands.is_empty() {
                let i = *rng.pick(&cands);
                let mut ls = lines.clone();
                let l = ls[i].trim_end().to_string();
                ls[i] = l[..l.len() - 1].to_string();
                text_mut("malformed syntax: missing comma between rules", format!("line {}", i), ls);
            }
            let i = *rng.pick(&action_lines);
            let mut ls = lines.clone();
            if let Some(p) = ls[i].find(" =") {
                let head = ls[i][..p].to_string();
                ls[i] = format!("{} => ,", head);
                text_mut("malformed syntax: missing right-hand side", format!("line {}", i), ls);
            }
            let i = *rng.pick(&action_lines);
            let mut ls = lines.clone();
            if let Some(p) = ls[i].find(" =") {
                let (head, tail) = ls[i].split_at(p);
                ls[i] = format!("{} |{}", head, tail);
                text_mut("malformed syntax: dangling `|`", format!("line {}", i), ls);
            }
        }
        {
            let rl = find(&|l| l.trim_start().starts_with("rule "));
            let i = *rng.pick(&rl);
            let mut ls = lines.clone();
            ls[i] = ls[i].replacen("rule ", "rul ", 1);
            text_mut("malformed syntax: `rule` misspelt", format!("line {}", i), ls);
        }
        {
            let mut ls = lines.clone();
            let last = ls.len() - 1;
            ls.insert(last, "        ;".to_string());
            text_mut("malformed syntax: stray token after the last rule set", "".into(), ls);
            let mut ls = lines.clone();
            let hdr = find(&|l| l.contains("pub L(St) -> Tok;"))[0];
            ls[hdr] = ls[hdr].replace("-> Tok;", "-> Tok");
            text_mut("malformed syntax: missing `;` after the header", "".into(), ls);
            let let_lines = find(&|l| l.trim_start().starts_with("let "));
            if !let_lines.is_empty() {
                let i = *rng.pick(&let_lines);
                let mut ls = lines.clone();
                ls[i] = ls[i].replacen(" = ", " ", 1);
                text_mut("malformed syntax: `let` without `=`", format!("line {}", i), ls);
            }
            if !action_lines.is_empty() {
                let i = *rng.pick(&action_lines);
                let mut ls = lines.clone();
                ls[i] = format!("        [\"ab\"]{}", &ls[i][ls[i].find(" =").unwrap_or(0)..]);
                text_mut("malformed syntax: string inside a bracket set", format!("line {}", i), ls);
            }
        }
        out
    }

    pub fn emit_illformed(name: &str, seed: u64, indices: &[usize]) -> (String, J) {
        let mut src = String::new();
        let mut map = vec![];
        src.push_str("// generated by specgen; do not edit\n");
        src.push_str("#![allow(unused, non_snake_case, non_camel_case_types, clippy::all)]\n");
        src.push_str("use vdrive::{St, Tok};\n\n");
        let mut line = 4usize;
        for (ci, idx) in indices.iter().enumerate() {
            let ms = build_illformed(seed, *idx);
            for (vi, m) in ms.iter().enumerate() {
                let start = line;
                let mut t = String::new();
                writeln!(t, "mod c{}v{} {{", ci, vi).unwrap();
                writeln!(t, "    use super::*;").unwrap();
                writeln!(t, "    use lexgen::lexer;").unwrap();
                t.push_str(&m.text);
                writeln!(t, "}}").unwrap();
                let nl = t.matches('\n').count();
                src.push_str(&t);
                line += nl;
                map.push(
                    J::obj()
                        .with("case", J::i(ci))
                        .with("variant", J::i(vi))
                        .with("family", J::s("illformed"))
                        .with("index", J::i(*idx))
                        .with("label", J::s(&m.kind))
                        .with("where", J::s(&m.where_))
                        .with("control", J::Bool(m.control))
                        .with("start", J::i(start))
                        .with("end", J::i(line - 1))
                        .with("spec", J::s(""))
                        .with("summary", J::s(&m.kind))
                        .with("source", J::s(&m.text)),
                );
            }
        }
        src.push_str("\nfn main() {}\n");
        let _ = name;
        (src, J::Arr(map))
    }
}
