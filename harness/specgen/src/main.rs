//! specgen: (family, seed, indices) -> batch source file + line map.
//!
//! usage:
//!   specgen batch --family F --seed S --indices 0-149 --variants base|equiv|desugar|print
//!                 --name NAME --out FILE [--skip "3.0,7.1"]
//!   specgen replay --spec-file FILE --name NAME --out FILE      (one case; variants one per line: label<TAB>paren<TAB>desugar<TAB>sexpr)
//!   specgen print --family F --seed S --index I                 (debug)

use std::collections::{BTreeMap, HashSet};
use std::fmt::Write as _;
use vmodel::gen::{self, gen_family_spec, mk_opts, Case, Variant};
use vmodel::json::J;
use vmodel::print::{print_lexer, summarize, Paren};
use vmodel::rng::{hash64, Rng};
use vmodel::spec::{Action, Entry, Spec};
use vmodel::wf::check_wf;

fn arg(args: &[String], k: &str) -> Option<String> {
    args.iter().position(|a| a == k).and_then(|i| args.get(i + 1).cloned())
}

fn parse_indices(s: &str) -> Vec<usize> {
    let mut v = vec![];
    for part in s.split(',') {
        if part.is_empty() {
            continue;
        }
        if let Some((a, b)) = part.split_once('-') {
            let a: usize = a.parse().unwrap();
            let b: usize = b.parse().unwrap();
            v.extend(a..=b);
        } else {
            v.push(part.parse().unwrap());
        }
    }
    v
}

fn paren_name(p: Paren) -> &'static str {
    match p {
        Paren::Minimal => "minimal",
        Paren::Full => "full",
        Paren::Redundant => "redundant",
    }
}

fn has_sugar(spec: &Spec) -> bool {
    spec.all_rules().any(|(_, r)| matches!(r.act, Action::Skip | Action::Simple(_)))
}

pub fn build_case(family: &str, seed: u64, index: usize, mode: &str) -> Case {
    let spec = gen_family_spec(family, seed, index);
    let mut rng = Rng::derive(seed, &[hash64(family.as_bytes()), index as u64, 4242]);
    let base_paren = match rng.below(4) {
        0 => Paren::Full,
        1 => Paren::Redundant,
        _ => Paren::Minimal,
    };
    let pseed = rng.next_u64();
    let mut variants = vec![];
    match mode {
        "equiv" => {
            variants.push(Variant {
                spec: spec.clone(),
                opts: mk_opts("L", base_paren, false, pseed),
                label: format!("base/{}", paren_name(base_paren)),
            });
            // rewrite one rule's regex by a documented equivalence
            let mut s2 = spec.clone();
            let mut why = None;
            'outer: for set in s2.sets.iter_mut() {
                for e in set.entries.iter_mut() {
                    if let Entry::Rule(r) = e {
                        if let Some((n, w)) = gen::equiv_rewrite(&r.re, &mut rng) {
                            r.re = n;
                            why = Some(w);
                            break 'outer;
                        }
                    }
                }
            }
            if let Some(w) = why {
                if check_wf(&s2).is_ok() {
                    variants.push(Variant {
                        spec: s2,
                        opts: mk_opts("L", base_paren, false, pseed),
                        label: format!("equiv: {}", w),
                    });
                }
            }
        }
        "desugar" => {
            variants.push(Variant {
                spec: spec.clone(),
                opts: mk_opts("L", base_paren, false, pseed),
                label: format!("base/{}", paren_name(base_paren)),
            });
            if has_sugar(&spec) {
                variants.push(Variant {
                    spec: spec.clone(),
                    opts: mk_opts("L", base_paren, true, pseed),
                    label: "desugar: `re,` and `re = t` written as their documented expansions".to_string(),
                });
            }
        }
        "print" => {
            variants.push(Variant {
                spec: spec.clone(),
                opts: mk_opts("L", Paren::Minimal, false, pseed),
                label: "print: minimal parentheses".to_string(),
            });
            variants.push(Variant {
                spec: spec.clone(),
                opts: mk_opts("L", Paren::Full, false, pseed),
                label: "print: fully parenthesised".to_string(),
            });
            variants.push(Variant {
                spec: spec.clone(),
                opts: mk_opts("L", Paren::Redundant, false, pseed),
                label: "print: redundant parentheses".to_string(),
            });
            let mut s2 = spec.clone();
            let mut any = false;
            let k = rng.range(1, 3);
            for _ in 0..k {
                any |= gen::factor_let(&mut s2, &mut rng);
            }
            if any && check_wf(&s2).is_ok() {
                variants.push(Variant {
                    spec: s2,
                    opts: mk_opts("L", Paren::Minimal, false, pseed),
                    label: "print: subtrees named with let".to_string(),
                });
            }
        }
        _ => {
            variants.push(Variant {
                spec: spec.clone(),
                opts: mk_opts("L", base_paren, false, pseed),
                label: format!("base/{}", paren_name(base_paren)),
            });
        }
    }
    Case {
        family: family.to_string(),
        index,
        variants,
    }
}

fn rust_str(s: &str) -> String {
    format!("{:?}", s)
}

/// Emit a batch source file. Returns (source, map json).
fn emit(name: &str, cases: &[Case], skip: &HashSet<(usize, usize)>) -> (String, J) {
    let mut src = String::new();
    let mut map = vec![];
    src.push_str("// generated by specgen; do not edit\n");
    src.push_str("#![allow(unused, non_snake_case, non_camel_case_types, clippy::all)]\n");
    src.push_str("use vdrive::{St, Tok};\n\n");
    let mut line = 4usize; // next line number (1-based) after the header above
    for (ci, c) in cases.iter().enumerate() {
        for (vi, v) in c.variants.iter().enumerate() {
            if skip.contains(&(ci, vi)) {
                continue;
            }
            let start = line;
            let mut m = String::new();
            writeln!(m, "mod c{}v{} {{", ci, vi).unwrap();
            writeln!(m, "    use super::*;").unwrap();
            writeln!(m, "    use lexgen::lexer;").unwrap();
            let lx = print_lexer(&v.spec, &v.opts);
            let lex_start = line + 3;
            m.push_str(&lx);
            let lex_end = lex_start + lx.matches('\n').count() - 1;
            writeln!(m, "    vdrive::glue!(L);").unwrap();
            writeln!(m, "}}").unwrap();
            let nl = m.matches('\n').count();
            src.push_str(&m);
            line += nl;
            map.push(
                J::obj()
                    .with("case", J::i(ci))
                    .with("variant", J::i(vi))
                    .with("family", J::s(&c.family))
                    .with("index", J::i(c.index))
                    .with("label", J::s(&v.label))
                    .with("start", J::i(start))
                    .with("end", J::i(line - 1))
                    .with("lexer_start", J::i(lex_start))
                    .with("lexer_end", J::i(lex_end))
                    .with("spec", J::s(&v.spec.to_text()))
                    .with("summary", J::s(&summarize(&v.spec)))
                    .with("source", J::s(&lx)),
            );
        }
    }
    src.push_str("\nfn main() {\n    let cases = vec![\n");
    for (ci, c) in cases.iter().enumerate() {
        writeln!(src, "        vdrive::CaseEntry {{ family: {}, index: {}, variants: vec![", rust_str(&c.family), c.index).unwrap();
        for (vi, v) in c.variants.iter().enumerate() {
            let fac = if skip.contains(&(ci, vi)) {
                "None".to_string()
            } else {
                format!("Some(c{}v{}::factory())", ci, vi)
            };
            writeln!(src, "            ({}, {}, {}),", rust_str(&v.label), rust_str(&v.spec.to_text()), fac).unwrap();
        }
        src.push_str("        ] },\n");
    }
    src.push_str("    ];\n");
    writeln!(src, "    vdrive::driver::run_batch({}, &cases);", rust_str(name)).unwrap();
    src.push_str("}\n");
    (src, J::Arr(map))
}

fn main() {
    let args: Vec<String> = std::env::args().collect();
    let cmd = args.get(1).map(|s| s.as_str()).unwrap_or("");
    match cmd {
        "batch" => {
            let family = arg(&args, "--family").expect("--family");
            let seed: u64 = arg(&args, "--seed").expect("--seed").parse().unwrap();
            let indices = parse_indices(&arg(&args, "--indices").expect("--indices"));
            let mode = arg(&args, "--variants").unwrap_or_else(|| "base".into());
            let name = arg(&args, "--name").expect("--name");
            let out = arg(&args, "--out").expect("--out");
            let mut skip = HashSet::new();
            if let Some(s) = arg(&args, "--skip") {
                for part in s.split(',') {
                    if let Some((a, b)) = part.split_once('.') {
                        skip.insert((a.parse::<usize>().unwrap(), b.parse::<usize>().unwrap()));
                    }
                }
            }
            let cases: Vec<Case> = indices.iter().map(|i| build_case(&family, seed, *i, &mode)).collect();
            let (src, map) = emit(&name, &cases, &skip);
            std::fs::write(&out, src).unwrap();
            std::fs::write(format!("{}.map.json", out), map.to_string()).unwrap();
        }
        "replay" => {
            // spec file: one variant per line: label \t paren \t desugar(0/1) \t seed \t sexpr
            let file = arg(&args, "--spec-file").expect("--spec-file");
            let name = arg(&args, "--name").expect("--name");
            let out = arg(&args, "--out").expect("--out");
            let family = arg(&args, "--family").unwrap_or_else(|| "replay".into());
            let index: usize = arg(&args, "--index").map(|s| s.parse().unwrap()).unwrap_or(0);
            let text = std::fs::read_to_string(file).unwrap();
            let mut variants = vec![];
            for l in text.lines() {
                if l.trim().is_empty() {
                    continue;
                }
                let f: Vec<&str> = l.splitn(5, '\t').collect();
                let paren = match f[1] {
                    "full" => Paren::Full,
                    "redundant" => Paren::Redundant,
                    _ => Paren::Minimal,
                };
                let spec = Spec::from_text(f[4]).expect("spec");
                variants.push(Variant {
                    spec,
                    opts: mk_opts("L", paren, f[2] == "1", f[3].parse().unwrap_or(0)),
                    label: f[0].to_string(),
                });
            }
            let cases = vec![Case {
                family,
                index,
                variants,
            }];
            let (src, map) = emit(&name, &cases, &HashSet::new());
            std::fs::write(&out, src).unwrap();
            std::fs::write(format!("{}.map.json", out), map.to_string()).unwrap();
        }
        "print" => {
            let family = arg(&args, "--family").expect("--family");
            let seed: u64 = arg(&args, "--seed").unwrap_or("1".into()).parse().unwrap();
            let index: usize = arg(&args, "--index").unwrap_or("0".into()).parse().unwrap();
            let mode = arg(&args, "--variants").unwrap_or_else(|| "base".into());
            let c = build_case(&family, seed, index, &mode);
            for v in &c.variants {
                println!("// {}", v.label);
                println!("// {}", v.spec.to_text());
                println!("{}", print_lexer(&v.spec, &v.opts));
            }
        }
        "count" => {
            let mut m = BTreeMap::new();
            m.insert("langx", gen::langx_exhaustive_len());
            m.insert("precx", gen::precx_exhaustive_len());
            for (k, v) in m {
                println!("{} {}", k, v);
            }
        }
        _ => {
            eprintln!("usage: specgen batch|replay|print|count ...");
            std::process::exit(2);
        }
    }
}
