fn main(){}
