//! C11 monitor: drives the REAL `RangeMap` (crates/lexgen/src/range_map.rs, included by path from
//! /repo's working tree) through operation sequences while a per-code-point shadow model is
//! updated alongside; after every operation checks structural invariants and pointwise equality.
#![allow(dead_code, unused_imports, clippy::all)]

#[path = "/repo/crates/lexgen/src/range_map.rs"]
mod range_map;
#[path = "/repo/crates/lexgen/src/verif.rs"]
mod verif;

use range_map::{Range, RangeMap};
use std::collections::BTreeSet;
use std::panic::{catch_unwind, AssertUnwindSafe};
use vmodel::json::J;
use vmodel::rng::{hash64, Rng};

type Val = Vec<u32>;

fn merge(a: &mut Val, b: Val) {
    a.extend(b)
}

/// Abstract operation (replayable, printable).
#[derive(Clone, Debug)]
enum Op {
    Insert(u32, u32, u32),
    /// insert_ranges with a map built from the listed (start, end, value) triples by `insert`
    InsertRanges(Vec<(u32, u32, u32)>, bool),
    /// remove_ranges with a map built from the listed ranges
    Remove(Vec<(u32, u32)>, bool),
}

/// Compact replayable text: `b a b v;...|I a b v|R s a b v,...|X s a b,...`
fn encode(base: &[(u32, u32, u32)], base_sorted: bool, ops: &[Op]) -> String {
    let mut s = format!("{}", if base_sorted { 1 } else { 0 });
    for (a, b, v) in base {
        s.push_str(&format!(" {} {} {}", a, b, v));
    }
    for op in ops {
        match op {
            Op::Insert(a, b, v) => s.push_str(&format!("|I {} {} {}", a, b, v)),
            Op::InsertRanges(ts, sorted) => {
                s.push_str(&format!("|R {}", if *sorted { 1 } else { 0 }));
                for (a, b, v) in ts {
                    s.push_str(&format!(" {} {} {}", a, b, v));
                }
            }
            Op::Remove(rs, sorted) => {
                s.push_str(&format!("|X {}", if *sorted { 1 } else { 0 }));
                for (a, b) in rs {
                    s.push_str(&format!(" {} {}", a, b));
                }
            }
        }
    }
    s
}

fn decode(text: &str) -> (Vec<(u32, u32, u32)>, bool, Vec<Op>) {
    let mut parts = text.split('|');
    let head: Vec<u32> = parts.next().unwrap().split_whitespace().map(|x| x.parse().unwrap()).collect();
    let base_sorted = head[0] == 1;
    let base: Vec<(u32, u32, u32)> = head[1..].chunks(3).map(|c| (c[0], c[1], c[2])).collect();
    let mut ops = vec![];
    for p in parts {
        let mut it = p.split_whitespace();
        let kind = it.next().unwrap();
        let nums: Vec<u32> = it.map(|x| x.parse().unwrap()).collect();
        match kind {
            "I" => ops.push(Op::Insert(nums[0], nums[1], nums[2])),
            "R" => ops.push(Op::InsertRanges(nums[1..].chunks(3).map(|c| (c[0], c[1], c[2])).collect(), nums[0] == 1)),
            _ => ops.push(Op::Remove(nums[1..].chunks(2).map(|c| (c[0], c[1])).collect(), nums[0] == 1)),
        }
    }
    (base, base_sorted, ops)
}

fn show_ops(base: &[(u32, u32, u32)], ops: &[Op]) -> String {
    format!("base={:?} ops={:?}", base, ops)
}

/// Build a map from triples. `sorted_ctor`: use from_non_overlapping_sorted_ranges (requires
/// sorted disjoint input), else repeated insert.
fn build(triples: &[(u32, u32, u32)], sorted_ctor: bool) -> RangeMap<Val> {
    if sorted_ctor {
        RangeMap::from_non_overlapping_sorted_ranges(
            triples
                .iter()
                .map(|(a, b, v)| Range {
                    start: *a,
                    end: *b,
                    value: vec![*v],
                })
                .collect(),
        )
    } else {
        let mut m = RangeMap::new();
        for (a, b, v) in triples {
            m.insert(*a, *b, vec![*v], merge);
        }
        m
    }
}

/// Pointwise semantics of a triple list: multiset of values of triples covering cp.
fn sem_triples(triples: &[(u32, u32, u32)], cp: u32) -> Option<Val> {
    let mut v: Val = triples.iter().filter(|(a, b, _)| *a <= cp && cp <= *b).map(|t| t.2).collect();
    if v.is_empty() {
        None
    } else {
        v.sort();
        Some(v)
    }
}

/// Pointwise semantics of base + ops at cp (the shadow model: a direct fold, no interval logic).
fn sem(base: &[(u32, u32, u32)], ops: &[Op], cp: u32) -> Option<Val> {
    let mut cur = sem_triples(base, cp);
    for op in ops {
        match op {
            Op::Insert(a, b, v) => {
                if *a <= cp && cp <= *b {
                    let mut x = cur.take().unwrap_or_default();
                    x.push(*v);
                    x.sort();
                    cur = Some(x);
                }
            }
            Op::InsertRanges(ts, _) => {
                if let Some(o) = sem_triples(ts, cp) {
                    let mut x = cur.take().unwrap_or_default();
                    x.extend(o);
                    x.sort();
                    cur = Some(x);
                }
            }
            Op::Remove(rs, _) => {
                if rs.iter().any(|(a, b)| *a <= cp && cp <= *b) {
                    cur = None;
                }
            }
        }
    }
    cur
}

fn apply(m: &mut RangeMap<Val>, op: &Op) {
    match op {
        Op::Insert(a, b, v) => m.insert(*a, *b, vec![*v], merge),
        Op::InsertRanges(ts, sorted) => {
            let o = build(ts, *sorted);
            m.insert_ranges(o.into_iter(), merge);
        }
        Op::Remove(rs, sorted) => {
            let ts: Vec<(u32, u32, u32)> = rs.iter().map(|(a, b)| (*a, *b, 0)).collect();
            let o = build(&ts, *sorted);
            m.remove_ranges(&o);
        }
    }
}

/// Check invariants and pointwise content at the given probe points. Returns a description of
/// the first problem.
fn check(m: &RangeMap<Val>, base: &[(u32, u32, u32)], ops: &[Op], probes: &[u32]) -> Option<String> {
    let rs: Vec<&Range<Val>> = m.iter().collect();
    for r in &rs {
        if r.start > r.end {
            return Some(format!("inverted piece {}..={}", r.start, r.end));
        }
    }
    for w in rs.windows(2) {
        if w[0].end >= w[1].start {
            return Some(format!(
                "pieces out of order or overlapping: {}..={} then {}..={}",
                w[0].start, w[0].end, w[1].start, w[1].end
            ));
        }
    }
    for cp in probes {
        let got = rs.iter().find(|r| r.start <= *cp && *cp <= r.end).map(|r| {
            let mut v = r.value.clone();
            v.sort();
            v
        });
        let want = sem(base, ops, *cp);
        if got != want {
            return Some(format!("at code point {} the map holds {:?}, the model {:?}", cp, got, want));
        }
    }
    None
}

struct Mon {
    ops: u64,
    nontrivial: BTreeSet<u64>,
    violations: Vec<J>,
    viol_count: u64,
    samples: Vec<J>,
    classes: std::collections::BTreeMap<String, u64>,
    guard_age: u32,
}

impl Mon {
    fn class(&mut self, k: &str) {
        *self.classes.entry(k.to_string()).or_insert(0) += 1;
    }

    /// Run base + ops on the real map, checking after every operation.
    fn run(&mut self, base: &[(u32, u32, u32)], base_sorted: bool, ops: &[Op], probes: &[u32], tag: &str) {
        self.guard_age += 1;
        if self.guard_age >= 2048 {
            self.guard_age = 0;
            let _g = verif::Guard::new();
        }
        let r = catch_unwind(AssertUnwindSafe(|| {
            let mut m = build(base, base_sorted);
            if let Some(p) = check(&m, base, &[], probes) {
                return Some(format!("after construction: {}", p));
            }
            for i in 0..ops.len() {
                apply(&mut m, &ops[i]);
                if let Some(p) = check(&m, base, &ops[..=i], probes) {
                    return Some(format!("after operation {} ({:?}): {}; map = {:?}", i, ops[i], p, m.iter().map(|r| (r.start, r.end, r.value.clone())).collect::<Vec<_>>()));
                }
            }
            None
        }));
        self.ops += ops.len() as u64;
        let problem = match r {
            Ok(None) => None,
            Ok(Some(p)) => Some(p),
            Err(p) => {
                let _g = verif::Guard::new();
                Some(format!(
                    "panic: {}",
                    p.downcast_ref::<String>().cloned().or_else(|| p.downcast_ref::<&str>().map(|s| s.to_string())).unwrap_or_default()
                ))
            }
        };
        if let Some(p) = problem {
            self.viol_count += 1;
            if self.violations.len() < 12 {
                self.violations.push(
                    J::obj()
                        .with("property", J::s("C11"))
                        .with("engine", J::s("rangemap_mon"))
                        .with("family", J::s(tag))
                        .with("index", J::Int(self.viol_count as i64))
                        .with("what", J::s(&format!("RangeMap: {}", p)))
                        .with("definition", J::s(&show_ops(base, ops)))
                        .with("base", J::Arr(base.iter().map(|t| J::Arr(vec![J::Int(t.0 as i64), J::Int(t.1 as i64), J::Int(t.2 as i64)])).collect()))
                        .with("base_sorted_ctor", J::Bool(base_sorted))
                        .with("ops", J::s(&format!("{:?}", ops)))
                        .with("rangemap_replay", J::s(&encode(base, base_sorted, ops))),
                );
            }
        }
    }
}

/// Maximal-run form of a subset bitmask over 0..n, and split (one piece per point) form.
fn forms(mask: u32, n: u32) -> (Vec<(u32, u32)>, Vec<(u32, u32)>) {
    let mut maximal = vec![];
    let mut split = vec![];
    let mut i = 0;
    while i < n {
        if mask >> i & 1 == 1 {
            let s = i;
            while i + 1 < n && mask >> (i + 1) & 1 == 1 {
                i += 1;
            }
            maximal.push((s, i));
            for k in s..=i {
                split.push((k, k));
            }
        }
        i += 1;
    }
    (maximal, split)
}

fn with_vals(rs: &[(u32, u32)], first: u32) -> Vec<(u32, u32, u32)> {
    rs.iter().enumerate().map(|(i, (a, b))| (*a, *b, first + i as u32)).collect()
}

fn nontrivial_remove(base: &[(u32, u32, u32)], removed: &[(u32, u32)]) -> bool {
    // removed range spans >= 2 base pieces, equals a piece, or touches a piece end point
    for (ra, rb) in removed {
        let mut spanned = 0;
        for (a, b, _) in base {
            if *a <= *rb && *ra <= *b {
                spanned += 1;
                if (a, b) == (ra, rb) || ra == a || rb == b || ra == b || rb == a {
                    return true;
                }
            }
        }
        if spanned >= 2 {
            return true;
        }
    }
    false
}

fn main() {
    let tier = std::env::var("VERIF_TIER").unwrap_or_else(|_| "quick".into());
    let seed: u64 = std::env::var("VERIF_SEED").ok().and_then(|s| s.parse().ok()).unwrap_or(1);
    let n: u32 = std::env::var("VP_RM_UNIVERSE").ok().and_then(|s| s.parse().ok()).unwrap_or(if tier == "quick" { 7 } else { 9 });
    let n_random: usize = std::env::var("VP_RM_RANDOM").ok().and_then(|s| s.parse().ok()).unwrap_or(if tier == "quick" { 60_000 } else { 1_500_000 });
    std::panic::set_hook(Box::new(|_| {}));
    let mut mon = Mon {
        ops: 0,
        nontrivial: BTreeSet::new(),
        violations: vec![],
        viol_count: 0,
        samples: vec![],
        classes: Default::default(),
        guard_age: 0,
    };
    if let Ok(text) = std::env::var("VP_RM_REPLAY") {
        let (base, base_sorted, ops) = decode(&text);
        let mut probes: Vec<u32> = vec![];
        let mut pts: Vec<u32> = base.iter().flat_map(|t| [t.0, t.1]).collect();
        for op in &ops {
            match op {
                Op::Insert(a, b, _) => pts.extend([*a, *b]),
                Op::InsertRanges(ts, _) => pts.extend(ts.iter().flat_map(|t| [t.0, t.1])),
                Op::Remove(rs, _) => pts.extend(rs.iter().flat_map(|t| [t.0, t.1])),
            }
        }
        for p in pts {
            for d in [-1i64, 0, 1] {
                let v = p as i64 + d;
                if (0..=0x10FFFF).contains(&v) {
                    probes.push(v as u32);
                }
            }
        }
        probes.sort();
        probes.dedup();
        mon.run(&base, base_sorted, &ops, &probes, "replay");
        for v in &mon.violations {
            println!("{}", J::obj().with("t", J::s("V")).with("v", v.clone()).to_string());
        }
        println!("{}", J::obj().with("t", J::s("S")).with("engine", J::s("rangemap_mon")).with("operations", J::Int(mon.ops as i64)).with("nontrivial", J::Int(1)).with("universe", J::Int(0)).with("violations", J::Int(mon.viol_count as i64)).with("samples", J::Arr(vec![])).to_string());
        return;
    }
    let probes: Vec<u32> = (0..n + 1).collect();
    let mut nt_count: u64 = 0;
    // ---- exhaustive over the small universe
    for bm in 0..(1u32 << n) {
        let (bmax, bsplit) = forms(bm, n);
        for (bform, bname) in [(&bmax, "maximal"), (&bsplit, "split")] {
            if bname == "split" && bsplit == bmax {
                continue;
            }
            let base = with_vals(bform, 100);
            // remove_ranges: every removed subset in both forms
            for rm in 0..(1u32 << n) {
                let (rmax, rsplit) = forms(rm, n);
                for (rform, rname) in [(&rmax, "maximal"), (&rsplit, "split")] {
                    if rname == "split" && rsplit == rmax {
                        continue;
                    }
                    let ops = vec![Op::Remove(rform.clone(), true)];
                    mon.run(&base, true, &ops, &probes, "exhaustive remove_ranges");
                    if nontrivial_remove(&base, rform) {
                        nt_count += 1;
                    }
                }
                // insert_ranges with the same second map (values 200..)
                let other = with_vals(&rmax, 200);
                let ops = vec![Op::InsertRanges(other, true)];
                mon.run(&base, true, &ops, &probes, "exhaustive insert_ranges");
            }
            // insert: every (start <= end) pair
            for a in 0..n {
                for b in a..n {
                    let ops = vec![Op::Insert(a, b, 300)];
                    mon.run(&base, true, &ops, &probes, "exhaustive insert");
                }
            }
        }
    }
    mon.class("exhaustive_universe_size");
    let exhaustive_ops = mon.ops;
    // ---- random sequences over the full code-point range
    let hostile: [u32; 14] = [0, 1, 0x7F, 0x80, 0xD7FE, 0xD7FF, 0xD800, 0xDFFF, 0xE000, 0xE001, 0xFFFF, 0x10000, 0x10FFFE, 0x10FFFF];
    let mut rng = Rng::derive(seed, &[0xC11]);
    for _ in 0..n_random {
        let pool: Vec<u32> = {
            let k = rng.range(3, 8);
            let mut v: Vec<u32> = (0..k)
                .map(|_| {
                    if rng.chance(3, 5) {
                        *rng.pick(&hostile)
                    } else if rng.chance(1, 2) {
                        rng.below(40) as u32
                    } else {
                        rng.below(0x110000) as u32
                    }
                })
                .collect();
            v.sort();
            v.dedup();
            v
        };
        let pick_range = |rng: &mut Rng| -> (u32, u32) {
            let a = *rng.pick(&pool);
            let b = *rng.pick(&pool);
            (a.min(b), a.max(b))
        };
        let mut val = 1;
        let nb = rng.range(0, 4);
        let mut base = vec![];
        for _ in 0..nb {
            let (a, b) = pick_range(&mut rng);
            base.push((a, b, val));
            val += 1;
        }
        let nops = rng.range(1, 8);
        let mut ops = vec![];
        for _ in 0..nops {
            match rng.below(3) {
                0 => {
                    let (a, b) = pick_range(&mut rng);
                    ops.push(Op::Insert(a, b, val));
                    val += 1;
                }
                1 => {
                    let k = rng.range(1, 3);
                    let mut ts = vec![];
                    for _ in 0..k {
                        let (a, b) = pick_range(&mut rng);
                        ts.push((a, b, val));
                        val += 1;
                    }
                    ops.push(Op::InsertRanges(ts, false));
                }
                _ => {
                    let k = rng.range(1, 3);
                    let mut rs = vec![];
                    for _ in 0..k {
                        rs.push(pick_range(&mut rng));
                    }
                    ops.push(Op::Remove(rs, false));
                    nt_count += 1;
                }
            }
        }
        let mut probes: Vec<u32> = vec![];
        for p in &pool {
            for d in [-1i64, 0, 1] {
                let v = *p as i64 + d;
                if (0..=0x10FFFF).contains(&v) {
                    probes.push(v as u32);
                }
            }
        }
        probes.sort();
        probes.dedup();
        mon.run(&base, false, &ops, &probes, "random sequence");
        if mon.samples.len() < 2 {
            mon.samples.push(J::s(&show_ops(&base, &ops)));
        }
    }
    for v in &mon.violations {
        println!("{}", J::obj().with("t", J::s("V")).with("v", v.clone()).to_string());
    }
    println!(
        "{}",
        J::obj()
            .with("t", J::s("S"))
            .with("engine", J::s("rangemap_mon"))
            .with("operations", J::Int(mon.ops as i64))
            .with("exhaustive_operations", J::Int(exhaustive_ops as i64))
            .with("random_sequences", J::i(n_random))
            .with("universe", J::Int(n as i64))
            .with("nontrivial", J::Int(nt_count as i64))
            .with("violations", J::Int(mon.viol_count as i64))
            .with("samples", J::Arr(mon.samples.clone()))
            .to_string()
    );
    let _ = hash64(b"");
}
