//! C18 monitor: calls the REAL table generator (crates/char_range_gen/src/main.rs, included by
//! path from /repo's working tree, entry point behind the `verif` feature) on boundary-defined
//! predicates and on the 20 real predicates, and checks its result against the closed-form answer
//! and (for a sample) a brute-force pointwise comparison.
#![allow(dead_code, unused_imports, clippy::all)]

#[path = "/repo/crates/char_range_gen/src/main.rs"]
mod gen;

use std::cell::RefCell;
use std::panic::{catch_unwind, AssertUnwindSafe};
use std::sync::atomic::{AtomicUsize, Ordering};
use std::sync::Mutex;
use vmodel::class::{builtin_pred, BUILTIN_NAMES};
use vmodel::json::J;
use vmodel::rng::Rng;

thread_local! {
    static BOUNDS: RefCell<(Vec<u32>, bool)> = const { RefCell::new((Vec::new(), false)) };
}

/// Predicate defined by sorted boundaries: truth flips at every boundary; `polarity` is the value
/// below the first boundary.
fn pred(c: char) -> bool {
    BOUNDS.with(|b| {
        let b = b.borrow();
        let v = c as u32;
        let mut t = b.1;
        for x in b.0.iter() {
            if *x <= v {
                t = !t;
            } else {
                break;
            }
        }
        t
    })
}

fn is_scalar(v: u32) -> bool {
    char::from_u32(v).is_some()
}

/// Closed form: maximal ranges over scalar values of a boundary-defined predicate.
fn expected(bounds: &[u32], polarity: bool) -> Vec<(u32, u32)> {
    // numeric intervals where the predicate is true
    let mut ivs: Vec<(u32, u32)> = vec![];
    let mut t = polarity;
    let mut start = 0u32;
    for b in bounds {
        if *b > 0x10FFFF {
            break;
        }
        if t && *b > start {
            ivs.push((start, *b - 1));
        }
        if *b >= start {
            t = !t;
            start = *b;
        }
    }
    if t && start <= 0x10FFFF {
        ivs.push((start, 0x10FFFF));
    }
    // clip around the surrogate gap
    let mut clipped: Vec<(u32, u32)> = vec![];
    for (a, b) in ivs {
        // part below the gap
        if a <= 0xD7FF {
            clipped.push((a, b.min(0xD7FF)));
        }
        if b >= 0xE000 {
            clipped.push((a.max(0xE000), b));
        }
    }
    // merge pieces adjacent in scalar order
    let mut out: Vec<(u32, u32)> = vec![];
    for (a, b) in clipped {
        if a > b {
            continue;
        }
        match out.last_mut() {
            Some(l) if l.1 + 1 == a || (l.1 == 0xD7FF && a == 0xE000) => l.1 = b,
            _ => out.push((a, b)),
        }
    }
    out
}

fn brute(f: fn(char) -> bool) -> Vec<(u32, u32)> {
    // independent run-length encoding over the sequence of scalar values
    let scalars = (0..=0x10FFFFu32).filter(|v| is_scalar(*v));
    let mut out: Vec<(u32, u32)> = vec![];
    let mut open: Option<(u32, u32)> = None;
    for v in scalars {
        let t = f(char::from_u32(v).unwrap());
        match (&mut open, t) {
            (Some(r), true) => r.1 = v,
            (None, true) => open = Some((v, v)),
            (Some(r), false) => {
                out.push(*r);
                open = None;
            }
            (None, false) => {}
        }
    }
    if let Some(r) = open {
        out.push(r);
    }
    out
}

fn well_formed(rs: &[(u32, u32)]) -> Option<String> {
    for (a, b) in rs {
        if !is_scalar(*a) || !is_scalar(*b) {
            return Some(format!("range ({:#X}, {:#X}) has a non-scalar end point", a, b));
        }
        if a > b {
            return Some(format!("inverted range ({:#X}, {:#X})", a, b));
        }
    }
    for w in rs.windows(2) {
        if w[0].1 >= w[1].0 {
            return Some(format!("ranges ({:#X},{:#X}) and ({:#X},{:#X}) are unsorted or overlap", w[0].0, w[0].1, w[1].0, w[1].1));
        }
        if w[0].1 + 1 == w[1].0 || (w[0].1 == 0xD7FF && w[1].0 == 0xE000) {
            return Some(format!("ranges ({:#X},{:#X}) and ({:#X},{:#X}) are adjacent (not maximal)", w[0].0, w[0].1, w[1].0, w[1].1));
        }
    }
    None
}

fn fmt_ranges(rs: &[(u32, u32)]) -> String {
    let v: Vec<String> = rs.iter().take(12).map(|(a, b)| format!("({:#X},{:#X})", a, b)).collect();
    format!("[{}{}]", v.join(", "), if rs.len() > 12 { ", ..." } else { "" })
}

fn main() {
    let tier = std::env::var("VERIF_TIER").unwrap_or_else(|_| "quick".into());
    let seed: u64 = std::env::var("VERIF_SEED").ok().and_then(|s| s.parse().ok()).unwrap_or(1);
    let threads: usize = std::env::var("VP_THREADS").ok().and_then(|s| s.parse().ok()).unwrap_or(16);
    std::panic::set_hook(Box::new(|_| {}));
    if let Ok(spec) = std::env::var("VP_C18_REPLAY") {
        // "<polarity 0|1>:<b1>,<b2>,..." -> judge exactly this predicate
        let (pol, bs) = spec.split_once(':').expect("VP_C18_REPLAY");
        let pol = pol == "1";
        let b: Vec<u32> = bs.split(',').filter(|x| !x.is_empty()).map(|x| x.parse().unwrap()).collect();
        BOUNDS.with(|x| *x.borrow_mut() = (b.clone(), pol));
        let want = expected(&b, pol);
        let got = catch_unwind(AssertUnwindSafe(|| gen::verif_generate(pred)));
        let problem = match &got {
            Err(_) => Some("generator panicked".to_string()),
            Ok(g) => well_formed(g).or_else(|| if *g != want { Some(format!("output {} differs from the exact ranges {}", fmt_ranges(g), fmt_ranges(&want))) } else { None }),
        };
        match problem {
            Some(p) => {
                println!("{}", J::obj().with("t", J::s("V")).with("v", J::obj().with("property", J::s("C18")).with("what", J::s(&format!("generate_char_fn_ranges: {}", p)))).to_string());
            }
            None => {}
        }
        println!("{}", J::obj().with("t", J::s("S")).with("engine", J::s("tablegen_mon")).with("predicates", J::i(1)).with("nontrivial", J::i(1)).with("boundary_candidates", J::Arr(vec![])).with("samples", J::Arr(vec![])).to_string());
        return;
    }
    let mut rng = Rng::derive(seed, &[0xC18]);
    let mut cands: Vec<u32> = vec![0, 1, 0x7F, 0xD7FE, 0xD7FF, 0xD800, 0xE000, 0xE001, 0x10FFFE, 0x10FFFF];
    let n_rand = if tier == "quick" { 3 } else { 4 };
    while cands.len() < 10 + n_rand {
        let v = rng.below(0x110000) as u32;
        if !cands.contains(&v) {
            cands.push(v);
        }
    }
    cands.sort();
    let max_size = if tier == "quick" { 3 } else { cands.len() };
    // enumerate subsets
    let mut preds: Vec<(Vec<u32>, bool)> = vec![];
    for mask in 0u32..(1 << cands.len()) {
        if (mask.count_ones() as usize) > max_size {
            continue;
        }
        let b: Vec<u32> = (0..cands.len()).filter(|i| mask >> i & 1 == 1).map(|i| cands[i]).collect();
        preds.push((b.clone(), false));
        preds.push((b, true));
    }
    let exhaustive = max_size == cands.len();
    let next = AtomicUsize::new(0);
    let viols: Mutex<Vec<J>> = Mutex::new(vec![]);
    let nontrivial = AtomicUsize::new(0);
    let brute_checked = AtomicUsize::new(0);
    let brute_every = if tier == "quick" { 97 } else { 331 };
    std::thread::scope(|sc| {
        for _ in 0..threads {
            sc.spawn(|| loop {
                let i = next.fetch_add(1, Ordering::SeqCst);
                if i >= preds.len() {
                    break;
                }
                let (b, pol) = &preds[i];
                BOUNDS.with(|x| *x.borrow_mut() = (b.clone(), *pol));
                let want = expected(b, *pol);
                let got = catch_unwind(AssertUnwindSafe(|| gen::verif_generate(pred)));
                let mut problem: Option<String> = None;
                match &got {
                    Err(_) => problem = Some("generator panicked".to_string()),
                    Ok(g) => {
                        if let Some(p) = well_formed(g) {
                            problem = Some(p);
                        } else if *g != want {
                            problem = Some(format!("output {} differs from the exact ranges {}", fmt_ranges(g), fmt_ranges(&want)));
                        }
                    }
                }
                if i % brute_every == 0 {
                    // brute-force confirmation of the closed form itself
                    let bf = brute(pred);
                    brute_checked.fetch_add(1, Ordering::Relaxed);
                    if bf != want {
                        viols.lock().unwrap().push(
                            J::obj()
                                .with("harness", J::Bool(true))
                                .with("what", J::s(&format!("closed form {} disagrees with brute force {} for boundaries {:X?} polarity {}", fmt_ranges(&want), fmt_ranges(&bf), b, pol))),
                        );
                    }
                }
                // non-trivial: holds at char::MAX, at U+D7FF, at U+E000 or at 0
                let holds = |v: u32| pred(char::from_u32(v).unwrap());
                if holds(0x10FFFF) || holds(0xD7FF) || holds(0xE000) || holds(0) {
                    nontrivial.fetch_add(1, Ordering::Relaxed);
                }
                if let Some(p) = problem {
                    let mut v = viols.lock().unwrap();
                    if v.len() < 200 {
                        v.push(
                            J::obj()
                                .with("property", J::s("C18"))
                                .with("family", J::s("boundary predicate"))
                                .with("index", J::i(i))
                                .with("what", J::s(&format!("generate_char_fn_ranges: {}", p)))
                                .with("definition", J::s(&format!("predicate flips at {:X?}, value below the first boundary: {}", b, pol)))
                                .with("boundaries", J::Arr(b.iter().map(|x| J::Int(*x as i64)).collect()))
                                .with("polarity", J::Bool(*pol)),
                        );
                    }
                }
            });
        }
    });
    // the 20 real predicates
    let mut real_checked = 0;
    for name in BUILTIN_NAMES.iter() {
        let f = builtin_pred(name).unwrap();
        let want = brute(f);
        let got = catch_unwind(AssertUnwindSafe(|| gen::verif_generate(f)));
        real_checked += 1;
        let problem = match &got {
            Err(_) => Some("generator panicked".to_string()),
            Ok(g) => well_formed(g).or_else(|| {
                if *g != want {
                    Some(format!("output has {} ranges, exact answer has {}", g.len(), want.len()))
                } else {
                    None
                }
            }),
        };
        if let Some(p) = problem {
            viols.lock().unwrap().push(
                J::obj()
                    .with("property", J::s("C18"))
                    .with("family", J::s("real predicate"))
                    .with("index", J::i(real_checked))
                    .with("what", J::s(&format!("generate_char_fn_ranges({}): {}", name, p)))
                    .with("definition", J::s(name)),
            );
        }
    }
    let v = viols.lock().unwrap();
    let mut n_v = 0;
    for x in v.iter() {
        let harness = matches!(x, J::Obj(m) if m.contains_key("harness"));
        if harness {
            println!("{}", J::obj().with("t", J::s("H")).with("msg", x.clone()).to_string());
        } else {
            n_v += 1;
            if n_v <= 12 {
                println!("{}", J::obj().with("t", J::s("V")).with("v", x.clone()).to_string());
            }
        }
    }
    println!(
        "{}",
        J::obj()
            .with("t", J::s("S"))
            .with("engine", J::s("tablegen_mon"))
            .with("predicates", J::i(preds.len() + real_checked))
            .with("boundary_predicates", J::i(preds.len()))
            .with("real_predicates", J::i(real_checked))
            .with("nontrivial", J::i(nontrivial.load(Ordering::Relaxed)))
            .with("brute_force_confirmations", J::i(brute_checked.load(Ordering::Relaxed)))
            .with("boundary_candidates", J::Arr(cands.iter().map(|c| J::Int(*c as i64)).collect()))
            .with("max_subset_size", J::i(max_size))
            .with("exhaustive", J::Bool(exhaustive))
            .with("violations", J::i(n_v))
            .with(
                "samples",
                J::Arr(
                    preds
                        .iter()
                        .skip(preds.len() / 2)
                        .take(2)
                        .map(|(b, p)| J::s(&format!("flips at {:X?}, starts {} -> {}", b, p, fmt_ranges(&expected(b, *p)))))
                        .collect(),
                ),
            )
            .to_string()
    );
}
